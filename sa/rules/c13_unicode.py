"""
C13 — Unicode code-point sets: generated tables and operator purity.

R13.1 UNICODE-TABLES   literal tables (ast.literal_eval, data only) composed per version and
                       compared exhaustively with CPython's unicodedata
R13.2 OPERATOR-PURITY  non-in-place set operators of UnicodeSubset/CharacterClass are pure
"""
from __future__ import annotations

import ast
import json
import subprocess
import sys
import unicodedata
from typing import Any, Optional

from ..engine.srcmodel import AnalysisError, Module, dotted, stmt_text, walk_local
from ..engine.report import RuleResult, Finding
from .common import finding

MAXU = 0x110000


def literal_tables(mod: Module) -> dict[str, Any]:
    out = {}
    for st in mod.tree.body:
        if isinstance(st, ast.Assign) and len(st.targets) == 1 \
                and isinstance(st.targets[0], ast.Name):
            try:
                out[st.targets[0].id] = ast.literal_eval(st.value)
            except (ValueError, SyntaxError):
                raise AnalysisError(f'{mod.relpath}:{st.lineno}: table {st.targets[0].id} is '
                                    f'not a literal')
        elif isinstance(st, (ast.Expr, ast.Import, ast.ImportFrom)):
            continue
        else:
            raise AnalysisError(f'{mod.relpath}:{st.lineno}: unexpected statement in a '
                                f'generated data module')
    return out


def vtuple(v: str) -> tuple[int, ...]:
    return tuple(int(x) for x in v.split('.'))


def compose(base: dict[str, list], diffs: list[tuple[str, dict]], version: str) -> dict[str, list]:
    """The exclude-then-ordered-insert composition of get_categories, on the literals."""
    cats = {k: list(v) for k, v in base.items()}
    vi = vtuple(version)
    for dv, diff in diffs:
        if vi < vtuple(dv):
            break
        for k, (exclude, insert) in diff.items():
            values = []
            add = iter(insert)
            cpa = next(add, None)
            cpa_int = cpa[0] if isinstance(cpa, tuple) else cpa
            for cp in cats[k]:
                if cp in exclude:
                    continue
                cp_int = cp[0] if isinstance(cp, tuple) else cp
                while cpa_int is not None and cpa_int <= cp_int:
                    values.append(cpa)
                    cpa = next(add, None)
                    cpa_int = cpa[0] if isinstance(cpa, tuple) else cpa
                else:
                    values.append(cp)
            else:
                if cpa is not None:
                    values.append(cpa)
                    values.extend(add)
            cats[k] = values
    return cats


def canonical_error(lst: list) -> Optional[str]:
    prev_end = -1
    for e in lst:
        if isinstance(e, int):
            s, t = e, e + 1
        elif isinstance(e, tuple) and len(e) == 2 and all(isinstance(x, int) for x in e):
            s, t = e
            if t - s < 2:
                return f'range {e} has width < 2 (canonical form uses a plain int)'
        else:
            return f'entry {e!r} is neither an int nor a (start, end) pair'
        if s < 0 or t > MAXU:
            return f'entry {e!r} outside the code space'
        if s < prev_end:
            return f'entry {e!r} overlaps or precedes the previous entry (unsorted)'
        if s == prev_end:
            return f'entry {e!r} is adjacent to the previous entry (unmerged)'
        prev_end = t
    return None


def to_runs(lst: list) -> list[tuple[int, int]]:
    return [(e, e + 1) if isinstance(e, int) else tuple(e) for e in lst]


def oracle_runs_local() -> dict[str, list[tuple[int, int]]]:
    runs: dict[str, list[list[int]]] = {}
    prev = None
    start = 0
    cat = unicodedata.category
    for cp in range(MAXU):
        c = cat(chr(cp))
        if c != prev:
            if prev is not None:
                runs.setdefault(prev, []).append([start, cp])
            prev, start = c, cp
    runs.setdefault(prev, []).append([start, MAXU])        # type: ignore[arg-type]
    return {k: [tuple(x) for x in v] for k, v in runs.items()}   # type: ignore[misc]


ORACLE_SNIPPET = r'''
import unicodedata, json, sys
runs = {}; prev = None; start = 0
for cp in range(0x110000):
    c = unicodedata.category(chr(cp))
    if c != prev:
        if prev is not None: runs.setdefault(prev, []).append([start, cp])
        prev, start = c, cp
runs.setdefault(prev, []).append([start, 0x110000])
json.dump({"version": unicodedata.unidata_version, "runs": runs}, sys.stdout)
'''


def oracle_runs_external(exe: str) -> Optional[tuple[str, dict[str, list[tuple[int, int]]]]]:
    try:
        p = subprocess.run([exe, '-I', '-c', ORACLE_SNIPPET], capture_output=True, text=True,
                           timeout=120)
    except (OSError, subprocess.TimeoutExpired):
        return None
    if p.returncode != 0:
        return None
    d = json.loads(p.stdout)
    return d['version'], {k: [tuple(x) for x in v] for k, v in d['runs'].items()}


def parse_block(s: str) -> list[tuple[int, int]]:
    """'\\u0000-\\u007F…' -> inclusive ranges as half-open pairs."""
    out = []
    i = 0
    while i < len(s):
        a = ord(s[i])
        if i + 2 < len(s) and s[i + 1] == '-':
            b = ord(s[i + 2])
            out.append((a, b + 1))
            i += 3
        else:
            out.append((a, a + 1))
            i += 1
    return out


def r13_1(ctx, counts: dict[str, int]) -> RuleResult:
    model = ctx.model
    res = RuleResult(
        'R13.1', 'UNICODE-TABLES',
        'unicode_categories.py / unicode_blocks.py are read as literals. For every version V '
        'listed in the tables: (a) each composed category list is canonical (sorted, disjoint, '
        'non-adjacent, ranges of width >= 2) — the form on which UnicodeSubset.__eq__ (list '
        'equality) relies; (b) for every V whose unicodedata is available in an installed '
        'interpreter, each two-letter category equals unicodedata.category over all 0x110000 '
        'code points (run-length comparison); (c) each one-letter category is the union of its '
        'two-letter ones; (d) the two-letter categories partition the code space; (e) current '
        '(non-superseded) blocks of each version are pairwise disjoint; (f) DIFF/UPDATE/REMOVED '
        'tables are defined in ascending version order (get_categories and UnicodeData stop at '
        'the first newer table) and the version lists agree.')
    cmod = model.module('elementpath.regex.unicode_categories')
    bmod = model.module('elementpath.regex.unicode_blocks')
    smod = model.module('elementpath.regex.unicode_subsets')
    ct = literal_tables(cmod)
    bt = literal_tables(bmod)
    # shape of get_categories
    gc = smod.toplevel_function('get_categories')
    if gc is None:
        raise AnalysisError('get_categories vanished')
    texts = {stmt_text(n) for n in ast.walk(gc.node) if isinstance(n, (ast.expr, ast.stmt))}
    need = ["name.startswith('DIFF_CATEGORIES_VER_')", 'cp in exclude_cps',
            'cpa_int is not None and cpa_int <= cp_int',
            'version_info < tuple((int(x) for x in diff_version.split(\'.\')))']
    for t in need:
        if t not in texts:
            raise AnalysisError(f'get_categories no longer has the exclude-then-ordered-insert '
                                f'shape the checker re-applies to the literals (missing `{t}`)')
    base = ct.get('UNICODE_CATEGORIES')
    versions = ct.get('UNICODE_VERSIONS')
    if not isinstance(base, dict) or not isinstance(versions, list):
        raise AnalysisError('UNICODE_CATEGORIES / UNICODE_VERSIONS not found')
    diffs = [(k[len('DIFF_CATEGORIES_VER_'):].replace('_', '.'), v)
             for k, v in ct.items() if k.startswith('DIFF_CATEGORIES_VER_')]
    # (f) ascending order
    dv = [vtuple(d[0]) for d in diffs]
    if dv == sorted(dv) and len(set(dv)) == len(dv):
        res.ok()
    else:
        res.fail(Finding('R13.1', cmod.relpath, '', 'DIFF order',
                         'DIFF_CATEGORIES_VER_* tables are not defined in ascending version '
                         'order: get_categories stops at the first newer table'))
    if [vtuple(v) for v in versions] == sorted(vtuple(v) for v in versions) and \
            [vtuple(v) for v in versions[1:]] == dv:
        res.ok()
    else:
        res.fail(Finding('R13.1', cmod.relpath, '', 'UNICODE_VERSIONS',
                         f'UNICODE_VERSIONS {versions} does not equal base + DIFF tables '
                         f'{[d[0] for d in diffs]}'))
    # oracles
    oracles: dict[str, dict[str, list[tuple[int, int]]]] = {
        unicodedata.unidata_version: oracle_runs_local()}
    for exe in ('/usr/bin/python3', '/usr/local/bin/python3-vt'):
        if len(oracles) >= 2:
            break
        r = oracle_runs_external(exe)
        if r is not None and r[0] not in oracles:
            oracles[r[0]] = r[1]
    res.notes.append(f'oracle unicodedata versions available: {sorted(oracles)}')
    majors = sorted(k for k in base if len(k) == 1)
    minors = sorted(k for k in base if len(k) == 2)
    compared = 0
    for v in versions:
        cats = compose(base, diffs, v)
        res.instances.append(f'categories {v}: {len(cats)} lists, '
                             f'{sum(len(x) for x in cats.values())} entries')
        # (a)
        for k in sorted(cats):
            err = canonical_error(cats[k])
            if err is None:
                res.ok()
            else:
                res.fail(Finding('R13.1', cmod.relpath, '', f'{v}:{k} canonical',
                                 f'Unicode {v} category {k}: {err}'))
        # (c)
        for M in majors:
            union = sorted(r for k in minors if k[0] == M for r in to_runs(cats[k]))
            merged: list[list[int]] = []
            for s, t in union:
                if merged and s <= merged[-1][1]:
                    merged[-1][1] = max(merged[-1][1], t)
                else:
                    merged.append([s, t])
            if [tuple(x) for x in merged] == to_runs(cats[M]):
                res.ok()
            else:
                res.fail(Finding('R13.1', cmod.relpath, '', f'{v}:{M} union',
                                 f'Unicode {v}: category {M} is not the union of its '
                                 f'subcategories'))
        # (d)
        allr = sorted(r for k in minors for r in to_runs(cats[k]))
        pos = 0
        part_ok = True
        for s, t in allr:
            if s != pos:
                part_ok = False
                break
            pos = t
        if part_ok and pos == MAXU:
            res.ok()
        else:
            res.fail(Finding('R13.1', cmod.relpath, '', f'{v}:partition',
                             f'Unicode {v}: the two-letter categories do not partition the code '
                             f'space (gap or overlap at U+{pos:04X})'))
        # (b)
        if v in oracles:
            orc = oracles[v]
            for k in minors:
                compared += 1
                mine = to_runs(cats[k])
                if mine == orc.get(k, []):
                    res.ok()
                else:
                    a, b = set(), set()
                    for s, t in mine:
                        a.update(range(s, t))
                    for s, t in orc.get(k, []):
                        b.update(range(s, t))
                    diff = sorted(a ^ b)
                    res.fail(Finding('R13.1', cmod.relpath, '', f'{v}:{k} vs unicodedata',
                                     f'Unicode {v} category {k} differs from unicodedata at '
                                     f'{len(diff)} code points, first U+{diff[0]:04X}'))
            res.samples.append({'rule': 'R13.1', 'version': v, 'oracle': 'unicodedata',
                                'code_points': MAXU, 'categories_compared': len(minors)})
    counts['category_versions'] = len(versions)
    counts['oracle_versions'] = len([v for v in versions if v in oracles])
    counts['oracle_category_comparisons'] = compared
    # (e)/(f) blocks
    names = [k for k in bt if k.startswith(('UPDATE_BLOCKS_VER_', 'REMOVED_BLOCKS_VER_'))]
    order = [vtuple(k.split('_VER_')[1].replace('_', '.')) for k in names]
    if order == sorted(order):
        res.ok()
    else:
        res.fail(Finding('R13.1', bmod.relpath, '', 'block tables order',
                         'UPDATE/REMOVED block tables are not in ascending version order'))
    sub_versions = model.try_fold(smod, ast.Name('UNICODE_VERSIONS', ast.Load()))
    bversions = sorted({vtuple(k.split('_VER_')[1].replace('_', '.')) for k in names}
                       | {(2, 0, 0)})
    nb = 0
    for vi in bversions:
        blocks = dict(bt['UNICODE_BLOCKS_VER_2_0_0'])
        superseded: list[str] = []
        for k in names:
            kv = vtuple(k.split('_VER_')[1].replace('_', '.'))
            if vi < kv:
                break
            if k.startswith('UPDATE'):
                blocks.update(bt[k])
            else:
                superseded.extend(bt[k])
        cur = sorted((r, n) for n, s in blocks.items() if n not in superseded
                     for r in parse_block(s))
        nb += 1
        bad = None
        for (r1, n1), (r2, n2) in zip(cur, cur[1:]):
            if r2[0] < r1[1] and n1 != n2:
                bad = (n1, n2, r2[0])
                break
        vs = '.'.join(map(str, vi))
        res.instances.append(f'blocks {vs}: {len(blocks)} blocks, {len(superseded)} superseded')
        if bad is None:
            res.ok()
        else:
            res.fail(Finding('R13.1', bmod.relpath, '', f'{vs}:{bad[0]}/{bad[1]} overlap',
                             f'Unicode {vs}: blocks {bad[0]!r} and {bad[1]!r} overlap at '
                             f'U+{bad[2]:04X}'))
    counts['block_versions'] = nb
    if isinstance(sub_versions, tuple):
        missing = [v for v in versions if v not in sub_versions]
        res.notes.append(f'unicode_subsets.UNICODE_VERSIONS lacks {missing} '
                         f'(informational: versions beyond the property\'s 2.0.0..16.0.0)')
    return res


INPLACE = {'__or__': '__ior__', '__and__': '__iand__', '__sub__': '__isub__',
           '__xor__': '__ixor__'}
NONCOMMUTATIVE_REFLECTED = {'__rsub__': '__sub__'}


def r13_2(ctx, counts: dict[str, int]) -> RuleResult:
    model = ctx.model
    res = RuleResult(
        'R13.2', 'OPERATOR-PURITY',
        'In UnicodeSubset and CharacterClass: each binary dunder (__or__ __and__ __sub__ '
        '__xor__) applies its in-place twin to a copy (self.__copy__() / self.copy() / '
        'copy(self)) and returns that; __copy__ returns the object it built, never self; a '
        'reflected dunder of a non-commutative operator (__rsub__) is not an alias of the '
        'forward one.')
    n = 0
    for cname in ('UnicodeSubset', 'CharacterClass'):
        cls = model.find_class(cname)
        cp = cls.methods.get('__copy__')
        if cp is None:
            raise AnalysisError(f'{cname}.__copy__ vanished')
        n += 1
        built = {t.id for s in walk_local(cp.node) if isinstance(s, ast.Assign)
                 for t in s.targets if isinstance(t, ast.Name)
                 and isinstance(s.value, ast.Call)}
        built |= {s.target.id for s in walk_local(cp.node) if isinstance(s, ast.AnnAssign)
                  and isinstance(s.target, ast.Name) and isinstance(s.value, ast.Call)}
        rets = [s for s in walk_local(cp.node) if isinstance(s, ast.Return)]
        res.instances.append(f'{cls.key}.__copy__ returns {[stmt_text(r.value) for r in rets if r.value]}')
        good = bool(rets) and all(isinstance(r.value, ast.Name) and r.value.id in built
                                  or isinstance(r.value, ast.Call) for r in rets)
        # the copy must not alias mutable state of the original
        init = cls.methods.get('__init__')
        mutable = set()
        if init is not None:
            for s_ in walk_local(init.node):
                if isinstance(s_, ast.Assign) and isinstance(s_.value, (ast.Call, ast.List,
                                                                       ast.Dict, ast.Set)):
                    if isinstance(s_.value, ast.Call) and dotted(s_.value.func) in (
                            'str', 'int', 'bool', 'tuple', 'frozenset'):
                        continue
                    for t in s_.targets:
                        if isinstance(t, ast.Attribute) and dotted(t.value) == 'self':
                            mutable.add(t.attr)
        for s_ in walk_local(cp.node):
            if isinstance(s_, ast.Assign) and isinstance(s_.value, ast.Attribute) \
                    and dotted(s_.value.value) == 'self' and s_.value.attr in mutable:
                for t in s_.targets:
                    if isinstance(t, ast.Attribute) and isinstance(t.value, ast.Name) \
                            and t.value.id in built:
                        res.fail(finding('R13.2', cp, s_, f'__copy__ aliases {s_.value.attr}',
                                         f'{cname}.__copy__ assigns self.{s_.value.attr} (a '
                                         f'mutable {"subset" if cname == "CharacterClass" else "list"}'
                                         f') to the copy without copying it: mutating the copy '
                                         f'(or a "pure" operator result) changes the original'))
        res.instances.append(f'{cls.key}.__copy__: mutable state {sorted(mutable)} not aliased')
        if good:
            res.ok()
        else:
            res.fail(finding('R13.2', cp, rets[0] if rets else cp.node, '__copy__ result',
                             f'{cname}.__copy__ does not return the object it built: every '
                             f'"pure" operator then mutates its left operand'))
        for op, iop in INPLACE.items():
            m = cls.methods.get(op)
            if m is None:
                continue
            n += 1
            copies = {t.id for s in walk_local(m.node) if isinstance(s, ast.Assign)
                      for t in s.targets if isinstance(t, ast.Name)
                      and stmt_text(s.value) in ('self.__copy__()', 'self.copy()', 'copy(self)',
                                                 'copy.copy(self)')}
            rets = [s for s in walk_local(m.node) if isinstance(s, ast.Return)]
            ok = bool(rets)
            for r in rets:
                v = r.value
                if isinstance(v, ast.Call) and isinstance(v.func, ast.Attribute) \
                        and v.func.attr == iop and isinstance(v.func.value, ast.Name) \
                        and v.func.value.id in copies:
                    continue
                if isinstance(v, ast.Name) and v.id in copies:
                    continue
                if v is not None and stmt_text(v) == 'NotImplemented':
                    continue
                ok = False
            mutates_self = any(
                isinstance(s, ast.Call) and isinstance(s.func, ast.Attribute)
                and dotted(s.func.value) == 'self'
                and s.func.attr in (iop, 'add', 'discard', 'update', 'clear',
                                    'difference_update', 'intersection_update')
                for s in walk_local(m.node)) or any(
                isinstance(s, ast.AugAssign) and dotted(s.target).startswith('self')
                for s in walk_local(m.node))
            res.instances.append(f'{cls.key}.{op}: copies={sorted(copies)}')
            if ok and not mutates_self:
                res.ok()
            else:
                res.fail(finding('R13.2', m, m.node, op,
                                 f'{cname}.{op} does not apply {iop} to a copy of self: the '
                                 f'non-in-place operator mutates its operand'))
        for rop, fop in NONCOMMUTATIVE_REFLECTED.items():
            a = cls.attrs.get(rop)
            if a is not None:
                n += 1
                res.instances.append(f'{cls.key}.{rop} = {stmt_text(a)}')
                if isinstance(a, ast.Name) and a.id == fop:
                    res.fail(Finding('R13.2', cls.module.relpath, cname, f'{rop} alias',
                                     f'{cname}.{rop} = {fop}: the reflected difference other - '
                                     f'self is computed as self - other', a.lineno))
                else:
                    res.ok()
            elif rop in cls.methods:
                n += 1
                res.ok()
    counts['operator_methods'] = n
    return res


def r13_3(ctx, counts: dict[str, int]) -> RuleResult:
    from ..engine.cfg import CFG
    from ..engine.dataflow import branch_facts
    model = ctx.model
    res = RuleResult(
        'R13.3', 'DIFFERENCE-REMOVES-POSITIVE',
        'CharacterClass represents positive ∪ ¬negative. For A -= B with B a CharacterClass, '
        'every code point of B.positive must leave the result whatever the shape of A, and the '
        'only way to remove a member of A.positive is to shrink A.positive: on every path of '
        '__isub__ on which `other` is a CharacterClass and self is returned, a statement '
        '`self.positive -= other.positive` (or difference_update) is passed.')
    cls = model.find_class('CharacterClass')
    m = cls.methods.get('__isub__')
    if m is None:
        raise AnalysisError('CharacterClass.__isub__ vanished')
    other = m.params()[1]
    cfg = CFG(m.node)
    facts = branch_facts(cfg)

    def removes(n) -> bool:
        a = n.ast
        if isinstance(a, ast.AugAssign) and isinstance(a.op, ast.Sub) \
                and dotted(a.target) == 'self.positive' \
                and stmt_text(a.value) == f'{other}.positive':
            return True
        if isinstance(a, ast.Expr) and isinstance(a.value, ast.Call) \
                and stmt_text(a.value.func) == 'self.positive.difference_update' \
                and a.value.args and stmt_text(a.value.args[0]) == f'{other}.positive':
            return True
        return False
    rets = [n for n in cfg.nodes if n.kind == 'stmt' and isinstance(n.ast, ast.Return)
            and n.ast.value is not None and stmt_text(n.ast.value) == 'self']
    k = 0
    for r in rets:
        if not any(f_.startswith(f'+isinstance({other}, ') and 'CharacterClass' in f_
                   for f_ in facts[r.id]):
            continue
        k += 1
        p = cfg.path_avoiding([cfg.entry], lambda n, r=r: n is r, removes, skip_start=False)
        res.instances.append(f'{m.key}: return self at L{r.lineno}: every path removes '
                             f'{other}.positive = {p is None}')
        if p is None:
            res.ok()
        else:
            res.fail(finding('R13.3', m, r.ast, 'positive not reduced',
                             f'CharacterClass.__isub__ can return without '
                             f'`self.positive -= {other}.positive`: members of both positive '
                             f'sets survive the difference (e.g. [\\D5-[5]] still matches 5)',
                             CFG.fmt_path(p)))
    if k == 0:
        raise AnalysisError('CharacterClass.__isub__: no `return self` under an isinstance('
                            'other, CharacterClass) test found')
    counts['isub_returns'] = k
    return res


def r13_6(ctx, counts: dict[str, int]) -> RuleResult:
    """Laws of the representation positive ∪ ¬negative."""
    from ..engine.cfg import CFG
    from ..engine.dataflow import branch_facts
    model = ctx.model
    res = RuleResult(
        'R13.6', 'CLASS-REPRESENTATION-LAWS',
        'CharacterClass denotes positive ∪ ¬negative (the second part only when negative is '
        'non-empty). Three identities of that representation are checked on the methods of the '
        'class. (a) UNION OF COMPLEMENTS: ¬N ∪ ¬X = ¬(N ∩ X), so in the code that adds a negated '
        'escape an in-place union `self.negative |= X` / `.update(X)` is legal only where '
        'negative is established empty (branch fact); with a non-empty negative the new set must '
        'be intersected ([\\D\\S] is every character, not [^\\d\\s]). (b) COMPLEMENT: '
        '¬(P ∪ ¬N) = N − P; exchanging the two parts is the complement only if one of them is '
        'empty, so a swap `self.positive, self.negative = self.negative, self.positive` is '
        'dominated by a fact that one part is empty ([^\\Da] is the digits, not "digits or not '
        'a"). (c) REMOVAL: (P ∪ ¬N) − X = (P − X) ∪ ¬(N ∪ X); in discard every path that removes '
        'X from positive also adds X to negative when negative is non-empty (otherwise the '
        'member removed from one part is still admitted by the other).')
    cls = model.find_class('CharacterClass')
    n = 0
    # (a) unions into self.negative in the adding code
    for name, m in sorted(cls.methods.items()):
        if not (name == 'add' or name.startswith('_add')):
            continue
        cfg = CFG(m.node)
        facts = branch_facts(cfg)
        for nd in cfg.nodes:
            a = nd.ast
            if nd.kind != 'stmt':
                continue
            union = (isinstance(a, ast.AugAssign) and isinstance(a.op, ast.BitOr)
                     and dotted(a.target) == 'self.negative') or \
                    (isinstance(a, ast.Expr) and isinstance(a.value, ast.Call)
                     and stmt_text(a.value.func) == 'self.negative.update')
            if not union:
                continue
            n += 1
            empty = '-self.negative' in facts[nd.id]
            res.instances.append(f'{m.key}: `{stmt_text(a)[:50]}` negative established empty='
                                 f'{empty}')
            if empty:
                res.ok()
            else:
                res.fail(finding('R13.6', m, a, 'union into a non-empty negative part',
                                 f'`{stmt_text(a)[:50]}` unites the new negated set with the '
                                 f'negated sets already in the class: ¬N ∪ ¬X is ¬(N ∩ X), the '
                                 f'union gives ¬(N ∪ X) ([\\D\\S] does not match "5")'))
    # (b) swaps
    for name, m in sorted(cls.methods.items()):
        cfg = CFG(m.node)
        facts = branch_facts(cfg)
        for nd in cfg.nodes:
            a = nd.ast
            if nd.kind == 'stmt' and isinstance(a, ast.Assign) and len(a.targets) == 1 \
                    and isinstance(a.targets[0], ast.Tuple) and isinstance(a.value, ast.Tuple) \
                    and [dotted(t) for t in a.targets[0].elts] == ['self.positive', 'self.negative'] \
                    and [dotted(t) for t in a.value.elts] == ['self.negative', 'self.positive']:
                n += 1
                one_empty = bool({'-self.negative', '-self.positive'} & set(facts[nd.id]))
                res.instances.append(f'{m.key}: swap of the two parts, one part established '
                                     f'empty={one_empty}')
                if one_empty:
                    res.ok()
                else:
                    res.fail(finding('R13.6', m, a, 'swap with both parts non-empty',
                                     f'{m.name} exchanges positive and negative where both may '
                                     f'be non-empty: the complement of P ∪ ¬N is N − P, the swap '
                                     f'gives N ∪ ¬P ([^\\Da] matches "b")'))
    # (c) removals in discard
    for name, m in sorted(cls.methods.items()):
        if not (name == 'discard' or name.startswith('_discard')):
            continue
        cfg = CFG(m.node)

        def removed_operand(a: ast.AST) -> Optional[str]:
            if isinstance(a, ast.AugAssign) and isinstance(a.op, ast.Sub) \
                    and dotted(a.target) == 'self.positive':
                return stmt_text(a.value)
            if isinstance(a, ast.Expr) and isinstance(a.value, ast.Call) \
                    and stmt_text(a.value.func) == 'self.positive.difference_update' \
                    and a.value.args:
                return stmt_text(a.value.args[0])
            return None
        for nd in cfg.nodes:
            if nd.kind != 'stmt':
                continue
            x = removed_operand(nd.ast)
            if x is None:
                continue
            n += 1

            def adds(q, x=x) -> bool:
                b = q.ast
                if isinstance(b, ast.AugAssign) and isinstance(b.op, ast.BitOr) \
                        and dotted(b.target) == 'self.negative' and stmt_text(b.value) == x:
                    return True
                return isinstance(b, ast.Expr) and isinstance(b.value, ast.Call) \
                    and stmt_text(b.value.func) == 'self.negative.update' \
                    and bool(b.value.args) and stmt_text(b.value.args[0]) == x

            def edge_ok(q, label: str) -> bool:
                # the false edge of `if self.negative` needs no transfer
                return not (q.kind == 'test' and label == 'false' and q.ast is not None
                            and stmt_text(q.ast) == 'self.negative')
            goal = [q for q in cfg.nodes if q is cfg.exit or
                    (q.kind == 'stmt' and q is not nd and removed_operand(q.ast) is not None)
                    or (q.kind in ('loop', 'test') and isinstance(q.ast, ast.For))]
            p = cfg.path_avoiding([nd], lambda q: any(q is g for g in goal), adds,
                                  edge_ok=edge_ok)
            res.instances.append(f'{m.key}: `{stmt_text(nd.ast)[:50]}` followed by the transfer '
                                 f'to negative on every path={p is None}')
            if p is None:
                res.ok()
            else:
                res.fail(finding('R13.6', m, nd.ast, f'removal of {x[:20]} not mirrored',
                                 f'`{stmt_text(nd.ast)[:50]}` removes the members from the '
                                 f'positive part only: when the class also has a negated part, '
                                 f'¬negative still admits them (CharacterClass("\\D").discard("a") '
                                 f'still contains "a")'))
    # (d) an unknown block name (XSD 1.1) stands for every character: \\p adds everything, \\P
    # nothing. Wherever unicode_subset(…) is tried and the else-branch dispatches on p / P, the
    # RegexError handler that accepts the unknown block must dispatch on the same test.
    for f in sorted(model.all_functions(), key=lambda q: q.key):
        if not f.module.name.startswith('elementpath.regex'):
            continue
        for tr in [x for x in walk_local(f.node) if isinstance(x, ast.Try)]:
            if not any(isinstance(c, ast.Call) and dotted(c.func).split('.')[-1] == 'unicode_subset'
                       for st in tr.body for c in ast.walk(st)):
                continue

            def dispatches(stmts: list) -> bool:
                for st in stmts:
                    for x in ast.walk(st):
                        if isinstance(x, (ast.If, ast.IfExp)):
                            t = stmt_text(x.test)
                            if "'p'" in t or "\\\\p'" in t or "'P'" in t or "\\\\P'" in t:
                                return True
                return False
            if not tr.orelse or not dispatches(tr.orelse):
                continue
            for h in tr.handlers:
                accepts = any(not isinstance(st, ast.Raise) for st in h.body
                              if not (isinstance(st, ast.If) and all(
                                  isinstance(b, ast.Raise) for b in st.body) and not st.orelse))
                if not accepts:
                    continue
                n += 1
                ok = dispatches(h.body)
                res.instances.append(f'{f.key}: unknown-block handler at L{h.lineno} dispatches '
                                     f'on p/P={ok}')
                if ok:
                    res.ok()
                else:
                    res.fail(finding('R13.6', f, h, 'unknown block: p and P treated alike',
                                     f'the handler that accepts an unknown block name treats '
                                     f'\\\\p{{IsX}} and \\\\P{{IsX}} alike, while the else-branch '
                                     f'distinguishes them: the complement of "every character" '
                                     f'is empty ([\\\\P{{IsFoo}}] matched everything)'))
    counts['class_law_sites'] = n
    if n < 3:
        raise AnalysisError(f'only {n} representation-law sites located in CharacterClass')
    return res


def r13_7(ctx, counts: dict[str, int]) -> RuleResult:
    """code-point ranges are half-open: the top of Unicode is maxunicode + 1"""
    model = ctx.model
    res = RuleResult(
        'R13.7', 'HALF-OPEN-RANGE-TOP',
        'A code-point range is the pair (first, last + 1): UnicodeSubset.__contains__, '
        'iter_code_points and the generated tables all read the second member as exclusive. The '
        'last code point U+10FFFF is therefore in a set only through `maxunicode + 1`. In the '
        'regex package (a) no range literal has the bare `maxunicode` as its second member, and '
        '(b) no call passes the bare `maxunicode` for a parameter that the callee stores as the '
        'second member of a range (one level). (`x <= maxunicode` comparisons and loop bounds '
        'are not ranges and are not counted.)')
    n = 0
    mods = [m for name, m in model.modules.items() if name.startswith('elementpath.regex')]

    def is_top(e: ast.AST) -> bool:
        return isinstance(e, (ast.Name, ast.Attribute)) and dotted(e).split('.')[-1] == 'maxunicode'
    funcs = [f for f in model.all_functions() if f.module in mods]
    stop_params: dict[str, set[int]] = {}
    for f in funcs:
        ps = f.params()
        for t in walk_local(f.node):
            if isinstance(t, ast.Tuple) and len(t.elts) == 2 and isinstance(t.elts[1], ast.Name) \
                    and t.elts[1].id in ps:
                stop_params.setdefault(f.name, set()).add(ps.index(t.elts[1].id))
    scopes = [(f.node, f) for f in funcs] + [(m.tree, None) for m in mods]
    seen: set[int] = set()
    for root, f in scopes:
        it = walk_local(root) if f is not None else ast.walk(root)
        for x in it:
            if id(x) in seen:
                continue
            if isinstance(x, ast.Tuple) and len(x.elts) == 2 and isinstance(x.ctx, ast.Load):
                seen.add(id(x))
                if not (is_top(x.elts[1]) or (isinstance(x.elts[1], ast.BinOp)
                                              and is_top(x.elts[1].left))):
                    continue
                n += 1
                ok = not is_top(x.elts[1])
                where = f.key if f is not None else 'module level'
                res.instances.append(f'{where}: range `{stmt_text(x)[:40]}` exclusive top={ok}')
                if ok:
                    res.ok()
                else:
                    mod = f.module if f is not None else next(
                        m for m in mods if any(y is x for y in ast.walk(m.tree)))
                    res.fail(Finding('R13.7', mod.relpath, f.name if f is not None else '<module>',
                                     f'range {stmt_text(x)[:30]}',
                                     f'`{stmt_text(x)[:40]}` ends at the bare maxunicode: the '
                                     f'second member of a range is exclusive, so U+10FFFF is '
                                     f'left out (\\p{{IsUnknown}} under XSD 1.1 does not match it)',
                                     getattr(x, 'lineno', 0)))
            elif isinstance(x, ast.Call) and f is not None:
                callee = dotted(x.func).split('.')[-1]
                for i in stop_params.get(callee, ()):
                    off = i - 1 if isinstance(x.func, ast.Attribute) and \
                        dotted(x.func.value) == 'self' else i
                    if 0 <= off < len(x.args) and is_top(x.args[off]):
                        n += 1
                        res.instances.append(f'{f.key}: `{stmt_text(x)[:50]}` passes the bare '
                                             f'maxunicode as an exclusive stop')
                        res.fail(finding('R13.7', f, x, f'{callee}(…, maxunicode)',
                                         f'`{stmt_text(x)[:60]}`: {callee} stores this argument '
                                         f'as the exclusive end of a range, so the run that ends '
                                         f'the code space loses U+10FFFF'))
    counts['range_tops'] = n
    if n < 3:
        raise AnalysisError(f'only {n} ranges reaching the top of Unicode located')
    return res


def r13_8(ctx, counts: dict[str, int]) -> RuleResult:
    """add() keeps the interval list merged"""
    model = ctx.model
    res = RuleResult(
        'R13.8', 'ADD-KEEPS-RANGES-MERGED',
        'Equality of UnicodeSubset compares the interval lists, so it is extensional only if the '
        'list is canonical: sorted, disjoint, touching ranges merged, single code points stored as '
        'int (the form discard() and the generated tables keep — R13.1). In UnicodeSubset.add: '
        '(a) no range is stored whose end is the start bound read from the following item '
        '(`code_points[k] = …, <bound of code_points[k + 1]>` makes item k touch item k+1 by '
        'construction); (b) the raw `value` argument is not inserted/appended as it came (a range '
        'of length one must become an int). [(0,5),(10,15)] + (3,12) gives [(0,10),(10,15)]; '
        '[(1,4)] discard 2, add 2 gives [(1,3),3], which is not equal to [(1,4)].')
    cls = model.find_class('UnicodeSubset')
    f = cls.methods.get('add')
    if f is None:
        raise AnalysisError('UnicodeSubset.add vanished')
    param = f.params()[1]
    # names bound to the start of the following item
    next_bounds: set[str] = set()
    nexts: set[str] = set()
    for st in walk_local(f.node):
        if isinstance(st, ast.Assign) and len(st.targets) == 1 and isinstance(st.targets[0], ast.Name):
            v = st.value
            if isinstance(v, ast.Subscript) and isinstance(v.slice, ast.BinOp) \
                    and isinstance(v.slice.op, ast.Add):
                nexts.add(st.targets[0].id)
    for st in walk_local(f.node):
        if isinstance(st, ast.Assign) and len(st.targets) == 1 and isinstance(st.targets[0], ast.Name):
            if any(isinstance(x, ast.Name) and x.id in nexts for x in ast.walk(st.value)):
                next_bounds.add(st.targets[0].id)
    n = 0
    for st in walk_local(f.node):
        if isinstance(st, ast.Assign) and len(st.targets) == 1 \
                and isinstance(st.targets[0], ast.Subscript) and isinstance(st.value, ast.Tuple) \
                and len(st.value.elts) == 2:
            n += 1
            touching = isinstance(st.value.elts[1], ast.Name) and st.value.elts[1].id in next_bounds
            res.instances.append(f'{f.key}: `{stmt_text(st)[:60]}` ends at the next item\'s '
                                 f'start={touching}')
            if touching:
                res.fail(finding('R13.8', f, st, 'range stored up to the next item',
                                 f'`{stmt_text(st)[:60]}` stores a range that ends exactly where '
                                 f'the following item begins and leaves both in the list: the '
                                 f'representation is not merged, so equal sets compare unequal '
                                 f'([(0,5),(10,15)] + (3,12) = [(0,10),(10,15)])'))
            else:
                res.ok()
        if isinstance(st, ast.Expr) and isinstance(st.value, ast.Call) \
                and isinstance(st.value.func, ast.Attribute) \
                and st.value.func.attr in ('insert', 'append') \
                and any(isinstance(a, ast.Name) and a.id == param for a in st.value.args):
            n += 1
            res.instances.append(f'{f.key}: `{stmt_text(st)[:50]}` stores the raw argument')
            res.fail(finding('R13.8', f, st, 'raw argument stored',
                             f'`{stmt_text(st)[:50]}` stores the argument as it came: the range '
                             f'(22, 23) stays a tuple although the canonical form of a single '
                             f'code point is the int 22 (the set then differs from an equal one '
                             f'built another way)'))
    if n == 0:
        res.instances.append(f'{f.key}: no direct store of a 2-tuple into the interval list '
                             f'(ranges are rebuilt after merging)')
        res.ok()
    counts['add_stores'] = n
    return res


SHARED_TABLE_CALLS = {'unicode_category', 'unicode_block', 'unicode_subset'}
CACHING_DECORATORS = {'lazy_subset', 'lru_cache', 'cache', 'cached_property'}


def cached_factories(model) -> set[str]:
    """names of regex-package functions whose result is memoised by a decorator: every caller
    receives the same object"""
    out = set()
    for f in model.all_functions():
        if not f.module.name.startswith('elementpath.regex'):
            continue
        for d in f.node.decorator_list:
            name = dotted(d.func if isinstance(d, ast.Call) else d).split('.')[-1]
            if name in CACHING_DECORATORS:
                out.add(f.name)
    return out


def r13_4(ctx, counts: dict[str, int]) -> RuleResult:
    model = ctx.model
    res = RuleResult(
        'R13.4', 'SHARED-TABLE-ALIAS',
        'The category/block tables and the lazy escape subsets are process-wide shared objects '
        '(unicode_category(), unicode_block(), unicode_subset(), CHARACTER_ESCAPES[…]() and the '
        'internal list of another UnicodeSubset, `other._codepoints` / `other.codepoints`). In '
        'the regex package no such object is stored uncopied into the mutable state of an '
        'instance (`self.positive/negative/_codepoints = shared`): the instance may only read it '
        '(|=, &=, -= with the shared object on the right) or store a copy (.copy(), copy(), '
        'UnicodeSubset(shared), list(shared)). Otherwise a later in-place operation on the '
        'instance edits the installed table for the rest of the process.')
    n = 0

    shared_calls = SHARED_TABLE_CALLS | cached_factories(model)

    def _shared_arg(e: ast.expr, local_escapes: set[str]) -> bool:
        if isinstance(e, ast.Call):
            d = dotted(e.func).split('.')[-1]
            if d in shared_calls:
                return True
            if isinstance(e.func, ast.Name) and e.func.id in local_escapes and not e.args:
                return True
            if isinstance(e.func, ast.Subscript) and dotted(e.func.value) == 'CHARACTER_ESCAPES':
                return True
        return False
    # one level of helper methods: parameters that receive a shared table at a call site
    # `self.<method>(…)` of the same class
    shared_params: dict[tuple[str, str], set[str]] = {}
    for g in model.all_functions():
        if not g.module.name.startswith('elementpath.regex') or g.cls is None:
            continue
        esc = {t.id for st in walk_local(g.node) if isinstance(st, ast.Assign)
               and isinstance(st.value, ast.Subscript)
               and dotted(st.value.value) == 'CHARACTER_ESCAPES'
               for t in st.targets if isinstance(t, ast.Name)}
        tabs = {t.id for st in walk_local(g.node) if isinstance(st, ast.Assign)
                and _shared_arg(st.value, esc) for t in st.targets if isinstance(t, ast.Name)}
        for c in walk_local(g.node):
            if isinstance(c, ast.Call) and isinstance(c.func, ast.Attribute) \
                    and dotted(c.func.value) == 'self':
                callee = g.cls.find_method(c.func.attr)
                if callee is None:
                    continue
                ps = callee.params()[1:]
                for i, a in enumerate(c.args):
                    if i < len(ps) and (_shared_arg(a, esc)
                                        or (isinstance(a, ast.Name) and a.id in tabs)):
                        shared_params.setdefault((callee.key, ''), set()).add(ps[i])
    for f in sorted(model.all_functions(), key=lambda q: q.key):
        if not f.module.name.startswith('elementpath.regex') or f.cls is None:
            continue
        params = f.params()
        if not params or params[0] != 'self':
            continue
        shared: set[str] = set(shared_params.get((f.key, ''), set()))
        top_level = {id(st) for st in f.node.body}

        def is_shared(e: ast.expr) -> bool:
            if isinstance(e, ast.Name):
                return e.id in shared
            if isinstance(e, ast.Call):
                d = dotted(e.func).split('.')[-1]
                if d in shared_calls:
                    return True
                # value() where value = CHARACTER_ESCAPES[...]
                if isinstance(e.func, ast.Name) and e.func.id in escapes and not e.args:
                    return True
                if isinstance(e.func, ast.Subscript) and dotted(e.func.value) == 'CHARACTER_ESCAPES':
                    return True
                return False
            if isinstance(e, ast.Attribute) and e.attr in ('_codepoints', 'codepoints') and \
                    dotted(e.value) not in ('self', ''):
                return True
            return False
        escapes = {t.id for st in walk_local(f.node) if isinstance(st, ast.Assign)
                   and isinstance(st.value, ast.Subscript)
                   and dotted(st.value.value) == 'CHARACTER_ESCAPES'
                   for t in st.targets if isinstance(t, ast.Name)}
        for st in sorted((x for x in walk_local(f.node) if isinstance(x, ast.Assign)),
                         key=lambda q: q.lineno):
            for t in st.targets:
                if isinstance(t, ast.Name):
                    if is_shared(st.value):
                        shared.add(t.id)
                    elif id(st) in top_level:
                        shared.discard(t.id)    # an unconditional redefinition
        for st in walk_local(f.node):
            if isinstance(st, (ast.Assign, ast.AnnAssign)) and st.value is not None:
                tgts = st.targets if isinstance(st, ast.Assign) else [st.target]
                for t in tgts:
                    if isinstance(t, ast.Attribute) and dotted(t.value) == 'self':
                        n += 1
                        if is_shared(st.value):
                            res.fail(finding('R13.4', f, st, f'self.{t.attr} = shared table',
                                             f'`{stmt_text(st)[:70]}` stores a process-wide shared '
                                             f'code-point table into the mutable state of the '
                                             f'instance without a copy: a later -=/|=/discard on '
                                             f'this instance edits the installed table (\\p{{Nd}} '
                                             f'stops matching digits for the rest of the process)'))
                        else:
                            res.ok()
    res.instances.append(f'{n} instance-state assignments examined in elementpath.regex')
    counts['regex_state_assignments'] = n
    if n < 8:
        raise AnalysisError(f'only {n} instance-state assignments located in the regex package')
    return res


def r13_9(ctx, counts: dict[str, int]) -> RuleResult:
    """The set operations of CharacterClass, interpreted over Venn regions."""
    from ..engine.venn import VennInterp, region_masks
    model = ctx.model
    res = RuleResult(
        'R13.9', 'CLASS-ALGEBRA-OVER-VENN-REGIONS',
        'A CharacterClass denotes den = positive ∪ ¬negative (the complemented part only when '
        'negative is non-empty). The in-place operations on that pair are straight-line set code '
        'with tests for emptiness; such code computes a Boolean identity for all sets iff it does '
        'so for every inhabitation pattern of the Venn regions of its operands (2^(2^k) patterns '
        'for k operand sets). The AST of each operation is interpreted (not executed) over region '
        'bitmasks for every pattern and the resulting pair is compared with the specification: '
        '__isub__: den − den(other); _add_complement(X): den ∪ ¬X; _discard_subset(X): den − X; '
        '_discard_complement(X): den ∩ X; complement(): ¬den. [\\Da-[\\D]] is the empty class '
        'and [\\D-[\\Sa]] the white spaces.')
    cls = model.find_class('CharacterClass')
    helper_nodes = {g.name: g.node for g in cls.module.functions.values() if g.cls is cls}

    def den(p: int, n: int, u: int) -> int:
        return p | ((u & ~n) if n else 0)

    SPECS = {
        '__isub__': (['self.positive', 'self.negative', 'other.positive', 'other.negative'],
                     lambda e0, u: den(e0[0], e0[1], u) & ~den(e0[2], e0[3], u) & u,
                     'den(self) − den(other)'),
        '_add_complement': (['self.positive', 'self.negative', 'subset'],
                            lambda e0, u: den(e0[0], e0[1], u) | (u & ~e0[2]), 'den ∪ ¬subset'),
        '_discard_subset': (['self.positive', 'self.negative', 'subset'],
                            lambda e0, u: den(e0[0], e0[1], u) & ~e0[2] & u, 'den − subset'),
        '_discard_complement': (['self.positive', 'self.negative', 'subset'],
                                lambda e0, u: den(e0[0], e0[1], u) & e0[2], 'den ∩ subset'),
        'complement': (['self.positive', 'self.negative'],
                       lambda e0, u: u & ~den(e0[0], e0[1], u), '¬den'),
    }
    n_ops = 0
    total = 0
    for name, (gens, spec, text) in SPECS.items():
        m = cls.methods.get(name)
        if m is None:
            if name in ('__isub__', 'complement'):
                raise AnalysisError(f'CharacterClass.{name} vanished')
            continue
        params = m.params()
        other = params[1] if len(params) > 1 else None
        gens = [g.replace('other', other).replace('subset', other) if other else g for g in gens]
        masks, full = region_masks(len(gens))
        variants = [False, True] if any(
            isinstance(c, ast.Call) and dotted(c.func) == 'isinstance' and len(c.args) == 2
            and dotted(c.args[1]) == 'str' for c in ast.walk(m.node)) else [False]
        n_ops += 1
        bad = None
        n_pat = 0
        for is_str in variants:
            def calls(c: ast.Call, _s=is_str):
                if dotted(c.func) == 'isinstance' and len(c.args) == 2:
                    return _s if dotted(c.args[1]) == 'str' else True
                return None
            for inh in range(full + 1):
                e0 = [g & inh for g in masks]
                env = dict(zip(gens, e0))
                out = VennInterp(m.node, env, inh, calls, helper_nodes).execute()
                got = den(out['self.positive'], out['self.negative'], inh)
                want = spec(e0, inh)
                n_pat += 1
                if got != want:
                    bad = (inh, e0, out, got, want)
                    break
            if bad:
                break
        total += n_pat
        res.instances.append(f'{m.key}: = {text} in {n_pat} inhabitation patterns of '
                             f'{1 << len(gens)} regions: {bad is None}')
        if bad is None:
            res.ok()
        else:
            inh, e0, out, got, want = bad

            def regions(mask: int) -> str:
                names = []
                for r in range(1 << len(gens)):
                    if mask >> r & 1:
                        names.append('{' + ','.join(
                            ('' if r >> i & 1 else '¬') + g.split('.')[-1][0].upper() + (
                                '2' if not g.startswith('self.') and len(gens) == 4 else
                                ('1' if len(gens) == 4 else ''))
                            for i, g in enumerate(gens)) + '}')
                return ' '.join(names) or '∅'
            res.fail(finding('R13.9', m, m.node, f'{name} is not {text}',
                             f'CharacterClass.{name} does not compute {text}: with the inhabited '
                             f'regions {regions(inh)} the result denotes {regions(got)} but the '
                             f'specification gives {regions(want)} (P/N = positive/negative part'
                             f'{", 1 = self, 2 = " + other if len(gens) == 4 else ""})'))
    counts['class_operations'] = n_ops
    counts['venn_patterns'] = total
    if n_ops < 2:
        raise AnalysisError(f'CharacterClass set operations located: {n_ops}')
    return res


MATERIALISING = ('UnicodeSubset', 'list', 'tuple', 'sorted', 'set', 'frozenset')


def r13_10(ctx, counts) -> RuleResult:
    """a set operator consumes its iterable operand once"""
    from ..engine.cfg import CFG, node_writes
    from ..engine.dataflow import branch_facts
    model = ctx.model
    res = RuleResult(
        'R13.10', 'OPERAND-CONSUMED-ONCE',
        'The set operators of UnicodeSubset accept any iterable of code points as `other`, '
        'including a one-shot iterator (a generator, map(ord, ..)). On every path of an operator '
        'the operand as received is consumed at most once — iterated, or passed to a call or to '
        'another operator — unless it has been re-bound to a materialised collection '
        '(`other = UnicodeSubset(..)`, list(..), ..) or is known to be a UnicodeSubset or a str '
        '(branch fact). A second use sees an exhausted iterator: `common = self & other; self |= '
        'other; self -= common` computes self - other for an iterator operand.')
    cls = [c for c in model.find_classes('UnicodeSubset')
           if c.module.name == 'elementpath.regex.unicode_subsets']
    if not cls:
        raise AnalysisError('UnicodeSubset vanished')
    n = 0
    for name, m in sorted(cls[0].methods.items()):
        params = m.params()
        if len(params) != 2 or not name.startswith('__') or params[1] != 'other':
            continue
        n += 1
        cfg = CFG(m.node)
        facts = branch_facts(cfg)

        def consuming(nd) -> int:
            """uses of `other` in the node that consume an iterator"""
            k = 0
            for e in nd.exprs():
                parent = {id(c): p_ for p_ in ast.walk(e) for c in ast.iter_child_nodes(p_)}
                for y in ast.walk(e):
                    if not (isinstance(y, ast.Name) and y.id == 'other'
                            and isinstance(y.ctx, ast.Load)):
                        continue
                    p_ = parent.get(id(y))
                    if isinstance(p_, ast.Call) and dotted(p_.func) in ('isinstance', 'cast',
                                                                       'id', 'type') \
                            and dotted(p_.func) != 'cast':
                        continue
                    if isinstance(p_, ast.Compare) and all(isinstance(o, (ast.Is, ast.IsNot))
                                                           for o in p_.ops):
                        continue
                    k += 1
            if nd.kind == 'for' and isinstance(nd.ast.iter, ast.Name) and nd.ast.iter.id == 'other':
                k = max(k, 1)
            return k

        worst = 0
        witness = None
        seen: set = set()
        stack = [(cfg.entry, 0, False, frozenset())]
        while stack:
            nd, cnt, mat, loops = stack.pop()
            key = (nd.id, min(cnt, 2), mat, loops)
            if key in seen:
                continue
            seen.add(key)
            fs = facts.get(nd.id, ())
            known = mat or any(fa in ('+isinstance(other, UnicodeSubset)', '+isinstance(other, str)',
                                      '+other is self') for fa in fs)
            use = 0 if known else consuming(nd)
            if nd.kind == 'for':
                # the header of a loop is visited once per iteration and consumes once
                if nd.id in loops:
                    use = 0
                else:
                    loops = loops | {nd.id}
            cnt2 = cnt + use
            if cnt2 > worst:
                worst, witness = cnt2, nd
            mat2 = mat
            for t, v in node_writes(nd):
                if t == 'other' and v is not None and not isinstance(v, ast.For):
                    cnt2 = 0
                    mat2 = isinstance(v, ast.Call) and dotted(v.func).split('.')[-1] in MATERIALISING
            for lb, t in nd.succs:
                if lb != 'exc':
                    stack.append((t, cnt2, mat2, loops))
        res.instances.append(f'{m.key}: the operand is consumed at most {worst} time(s) on a path')
        if worst <= 1:
            res.ok()
        else:
            res.fail(finding('R13.10', m, witness.ast if witness is not None else m.node,
                             f'{name} consumes other {worst} times',
                             f'{name} uses its operand `other` {worst} times on one path without '
                             f'materialising it: a one-shot iterator operand is exhausted by the '
                             f'first use and the later ones see nothing '
                             f'(UnicodeSubset() ^ iter([..]) is empty)'))
    counts['set_operators_with_iterable_operand'] = n
    if n < 8:
        raise AnalysisError(f'UnicodeSubset operators located: {n} < 8')
    return res


def r13_11(ctx, counts) -> RuleResult:
    """install_unicode_data installs on every normal exit"""
    from ..engine.cfg import CFG, node_writes
    model = ctx.model
    res = RuleResult(
        'R13.11', 'INSTALL-ALWAYS-INSTALLS',
        'unicode_subsets.install_unicode_data replaces the module-level Unicode data and clears '
        'the cache of the lazy subsets derived from the old data. Every path from its entry to a '
        'normal exit passes the store of the module-level data object and the clear() of the '
        'subsets cache (CFG must-pass-through, exception exits excluded). A version string does '
        'not identify the installed tables (a custom module can be installed under the '
        'interpreter\'s version), so "already installed" is not a reason to return early: '
        'install_unicode_data() would no longer restore the default data.')
    mod = model.module('elementpath.regex.unicode_subsets')
    f = mod.toplevel_function('install_unicode_data')
    if f is None:
        raise AnalysisError('install_unicode_data vanished')
    globs = {n_ for st in ast.walk(f.node) if isinstance(st, ast.Global) for n_ in st.names}
    cfg = CFG(f.node)
    stores = [nd for nd in cfg.nodes if any(t in globs for t, _ in node_writes(nd))]
    clears = [nd for nd in cfg.nodes if nd.ast is not None and any(
        isinstance(c, ast.Call) and isinstance(c.func, ast.Attribute) and c.func.attr == 'clear'
        for e in nd.exprs() for c in ast.walk(e))]
    if not globs or not stores or not clears:
        raise AnalysisError('install_unicode_data: global store / cache clear not located')
    n = 0
    for what, marks in (('the store of the module-level data', stores),
                        ('the clear() of the subsets cache', clears)):
        n += 1
        path = cfg.path_avoiding([cfg.entry], lambda q: q is cfg.exit, lambda q: q in marks,
                                 follow=lambda lb: lb != 'exc', skip_start=False)
        res.instances.append(f'{f.key}: every normal exit passes {what}: {path is None}')
        if path is None:
            res.ok()
        else:
            res.fail(finding('R13.11', f, path[-2].ast if len(path) > 1 and path[-2].ast is not None
                             else f.node, f'exit without {what.split()[1]}',
                             f'install_unicode_data can return without {what} '
                             f'({cfg.fmt_path(path)[:4]}): the tables of an earlier call stay '
                             f'installed although the caller asked for (or asked to restore) '
                             f'other data'))
    counts['install_obligations'] = n
    return res


def run(ctx) -> dict:
    counts: dict[str, int] = {}
    results = [r13_1(ctx, counts), r13_2(ctx, counts), r13_3(ctx, counts), r13_4(ctx, counts),
               r13_6(ctx, counts), r13_7(ctx, counts), r13_8(ctx, counts),
               r13_9(ctx, counts), r13_10(ctx, counts), r13_11(ctx, counts)]
    # the run-length builders of the category tables (fallback for Unicode versions without a
    # generated table, and the UnicodeData.txt loader) treat major and minor categories with
    # cloned blocks: the clones must be consistent
    from .clones import clone_rule
    r5 = clone_rule(ctx, 'R13.5', lambda f: f.module.name.startswith('elementpath.regex'), counts)
    if len(r5.instances) < 4:
        raise AnalysisError(f'R13.5: only {len(r5.instances)} clone pairs located in the regex package')
    results.append(r5)
    # process-wide state is written only by the reviewed inventory (no new caches)
    from .c19_global import r19_5 as _r19_5
    _state = _r19_5(ctx, counts, lambda f: f.module.name.startswith('elementpath.regex'), 2)
    return {
        'results': results + [_state], 'counts': counts,
        'explanation':
            'The generated Unicode tables are data: they are read with ast.literal_eval, composed '
            'per version exactly as get_categories/UnicodeData compose them (shape of '
            'get_categories re-checked), and (a) checked for the canonical form that list '
            'equality needs, (b) compared exhaustively (all 1,114,112 code points, every '
            'two-letter category) with unicodedata of each interpreter available here, (c,d) '
            'checked for major=union(minors) and partition, (e) block disjointness, (f) table '
            'ordering. Operator purity of the set classes is a syntactic rule on the dunders.',
        'not_decided':
            'Decided for the set classes: purity of the non-in-place operators, no aliasing of '
            'shared tables, the representation laws of CharacterClass (union of complements, '
            'complement, removal, unknown blocks), half-open range tops, and that add() stores no '
            'range touching its successor (3 known findings: it does). Not decided: correctness of '
            'interval merging under arbitrary operation sequences (a statement over histories of '
            'runtime states); category equality for Unicode versions for which no interpreter is '
            'installed (13.0.0, 15.1.0, 16.0.0, 17.0.0 get (a),(c)-(f) only).',
        'assumptions': ['CPython unicodedata is the independent oracle',
                        'exhaustive over code points and categories for the oracle versions'],
    }


_ = sys
