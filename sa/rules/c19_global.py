"""
C19 — evaluation preserves process-global state: locale, locks, environment, entities.

R19.1 LOCK-PAIRING            CFG with exception edges over every function that acquires a
                              module-level threading lock
R19.2 NO-YIELD-UNDER-LOCK     no yield and (for a non-reentrant lock) no re-entrant
                              acquisition reachable inside a critical section
R19.3 GLOBAL-STATE-CONFINEMENT who-may-call tables for setlocale / os.environ / decimal
                              context / threading primitives; environment reads are gated
R19.4 XML-DEFUSE              every XML parsing sink takes defused text
"""
from __future__ import annotations

import ast
from typing import Optional

from ..engine.srcmodel import AnalysisError, FuncInfo, Model, Module, ClassInfo, dotted, \
    stmt_text, walk_local
from ..engine.cfg import CFG, Node
from ..engine.dataflow import branch_facts
from ..engine.callgraph import CallGraph
from ..engine.report import RuleResult
from .common import finding, enclosing_map


# --------------------------------------------------------------------- discovery
def discover_locks(model: Model) -> dict[tuple[str, str], tuple[Module, ast.AST, str]]:
    """(module name, variable) -> (module, node, kind) for module-level threading locks."""
    out = {}
    for mod in model.modules.values():
        for name, expr in mod.assigns.items():
            if isinstance(expr, ast.Call):
                kind, val = model.resolve_expr(mod, expr.func)
                if kind == 'external' and val in ('threading.Lock', 'threading.RLock',
                                                  '_thread.allocate_lock'):
                    out[(mod.name, name)] = (mod, expr, val.split('.')[-1])
    return out


def lock_ref(model: Model, mod: Module, e: ast.expr,
             locks: dict[tuple[str, str], tuple[Module, ast.AST, str]]) -> Optional[tuple[str, str]]:
    """If expression `e` denotes a discovered lock, return its key."""
    if isinstance(e, ast.Name):
        if (mod.name, e.id) in locks:
            return mod.name, e.id
        if e.id in mod.imports:
            tgt, attr = mod.imports[e.id]
            if attr and (tgt, attr) in locks:
                return tgt, attr
    if isinstance(e, ast.Attribute):
        kind, val = model.resolve_expr(mod, e.value)
        if kind == 'module' and (val, e.attr) in locks:
            return val, e.attr
    return None


def _lock_call(model: Model, mod: Module, n: ast.AST, locks: dict, meth: str) -> Optional[tuple[str, str]]:
    if isinstance(n, ast.Call) and isinstance(n.func, ast.Attribute) and n.func.attr == meth:
        return lock_ref(model, mod, n.func.value, locks)
    return None


def node_has(model: Model, mod: Module, node: Node, locks: dict, meth: str) -> bool:
    return any(_lock_call(model, mod, x, locks, meth) for x in node.walk())


def _may_raise_factory(model: Model, mod: Module, locks: dict):
    def may_raise(n: ast.AST) -> bool:
        if isinstance(n, ast.Raise):
            return True
        for x in ast.walk(n):
            if isinstance(x, (ast.FunctionDef, ast.Lambda)):
                continue
            if isinstance(x, ast.Call):
                if _lock_call(model, mod, x, locks, 'release') or \
                        _lock_call(model, mod, x, locks, 'acquire'):
                    continue
                if isinstance(x.func, ast.Name) and x.func.id in ('isinstance', 'len'):
                    continue
                return True
            if isinstance(x, ast.Assert):
                return True
        return False
    return may_raise


# --------------------------------------------------------------------- R19.1
def r19_1(ctx, counts: dict[str, int]) -> RuleResult:
    model: Model = ctx.model
    res = RuleResult(
        'R19.1', 'LOCK-PAIRING',
        'In every function that acquires a module-level threading lock: every path from '
        'acquire() to an exceptional exit passes release(). In a context manager __enter__ '
        'every path to the normal return keeps the lock and leaves the state attribute that '
        '__exit__ tests set; in __exit__ every call that can raise before release() has '
        'release() on its exception path (finally). Every use of a lock-managing class is a '
        '`with` item. Calls (other than acquire/release/isinstance/len) and raise statements '
        'are the may-raise points.')
    locks = discover_locks(model)
    counts['locks'] = len(locks)
    for key, (mod, node, kind) in locks.items():
        res.instances.append(f'lock {key[0]}.{key[1]} = threading.{kind}()')
    acquirers: list[FuncInfo] = []
    for f in model.all_functions():
        if any(_lock_call(model, f.module, n, locks, 'acquire') for n in walk_local(f.node)):
            acquirers.append(f)
    counts['acquire_functions'] = len(acquirers)
    managers: dict[ClassInfo, FuncInfo] = {}
    for f in acquirers:
        mod = f.module
        cfg = CFG(f.node, _may_raise_factory(model, mod, locks))
        acq = cfg.find(lambda n: node_has(model, mod, n, locks, 'acquire'))
        is_rel = lambda n: node_has(model, mod, n, locks, 'release')  # noqa: E731
        is_enter = f.cls is not None and f.name == '__enter__' and f.parent is None
        res.instances.append(f'{f.key}: {len(acq)} acquire site(s), {len(cfg.nodes)} CFG nodes')
        # A: exceptional exits
        p = cfg.path_avoiding(acq, lambda n: n is cfg.raise_exit, is_rel)
        if p is not None:
            res.fail(finding('R19.1', f, p[-2].ast if len(p) > 1 else f.node, 'acquire->raise',
                             'a path from acquire() leaves the function by an exception '
                             'without release(): the lock stays held',
                             CFG.fmt_path(p)))
        else:
            res.ok()
        res.samples.append({'rule': 'R19.1', 'function': f.key,
                            'obligation': 'acquire -> exceptional exit passes release',
                            'holds': p is None})
        if is_enter:
            assert f.cls is not None
            managers[f.cls] = f
            ex = f.cls.methods.get('__exit__')
            if ex is None:
                raise AnalysisError(f'{f.cls.key}: __enter__ acquires a lock but no __exit__')
            # the state attribute tested by __exit__ around release
            ecfg = CFG(ex.node, _may_raise_factory(model, mod, locks))
            rel_nodes = ecfg.find(is_rel)
            if not rel_nodes:
                res.fail(finding('R19.1', ex, ex.node, 'release',
                                 '__exit__ never releases the lock that __enter__ acquires'))
                continue
            facts = branch_facts(ecfg)
            state_attrs = set()
            for rn in rel_nodes:
                for fact in facts[rn.id]:
                    if fact.startswith('-self.') and fact.endswith(' is None'):
                        state_attrs.add(fact[1:-len(' is None')])
            # (the fact may be killed before the release by `self.X = None` in the same finally:
            # also read the attribute from the tests of __exit__ themselves)
            for tn in ecfg.nodes:
                if tn.kind == 'test':
                    t = tn.ast.test if isinstance(tn.ast, (ast.If, ast.While)) else tn.ast
                    if isinstance(t, ast.Compare) and len(t.ops) == 1 and \
                            isinstance(t.ops[0], (ast.Is, ast.IsNot)) and \
                            isinstance(t.comparators[0], ast.Constant) and \
                            t.comparators[0].value is None and dotted(t.left).startswith('self.'):
                        state_attrs.add(dotted(t.left))
            res.notes.append(f'{f.cls.name}: __exit__ releases under state {sorted(state_attrs)}')
            # B: normal exits of __enter__ keep the lock and set the state attribute
            p = cfg.path_avoiding(acq, is_rel, lambda n: n is cfg.raise_exit,
                                  follow=lambda lb: lb != 'exc')
            # a release on a normal path must be followed by an exceptional exit only
            if p is not None:
                q = cfg.path_avoiding([p[-1]], lambda n: n is cfg.exit, lambda n: False,
                                      follow=lambda lb: lb != 'exc')
                if q is not None:
                    res.fail(finding('R19.1', f, p[-1].ast, 'release->return',
                                     '__enter__ can return normally after releasing the lock',
                                     CFG.fmt_path(p + q[1:])))
                else:
                    res.ok()
            else:
                res.ok()
            for attr in sorted(state_attrs):
                def sets_state(n: Node, attr=attr) -> bool:
                    from ..engine.cfg import node_writes
                    for tgt, val in node_writes(n):
                        if tgt == attr and not (isinstance(val, ast.Constant)
                                                and val.value is None):
                            return True
                    return False

                def clears_state(n: Node, attr=attr) -> bool:
                    from ..engine.cfg import node_writes
                    return any(tgt == attr and isinstance(val, ast.Constant) and val.value is None
                               for tgt, val in node_writes(n))
                p = cfg.path_avoiding(acq, lambda n: n is cfg.exit, sets_state)
                if p is not None:
                    res.fail(finding('R19.1', f, f.node, f'{attr} unset',
                                     f'__enter__ can return holding the lock without setting '
                                     f'{attr}, so __exit__ will not release it',
                                     CFG.fmt_path(p)))
                else:
                    res.ok()
                clr = cfg.find(clears_state)
                p = cfg.path_avoiding(clr, lambda n: n is cfg.exit,
                                      lambda n: sets_state(n) or is_rel(n)) if clr else None
                if p is not None:
                    res.fail(finding('R19.1', f, p[0].ast, f'{attr} cleared',
                                     f'__enter__ can return with {attr} reset to None while '
                                     f'the lock is held', CFG.fmt_path(p)))
                else:
                    res.ok()
            # F: the global state that __exit__ restores is read (and written) inside the
            # critical section: every getlocale/setlocale call of __enter__ comes after acquire
            for gn in cfg.nodes:
                if gn.ast is None or gn.kind not in ('stmt', 'test'):
                    continue
                if not any(isinstance(x, ast.Call) and dotted(x.func) in
                           ('locale.getlocale', 'locale.setlocale') for x in ast.walk(gn.ast)):
                    continue
                p = cfg.path_avoiding([cfg.entry], lambda n, gn=gn: n is gn,
                                      lambda n: n in acq)
                if p is not None:
                    res.fail(finding('R19.1', f, gn.ast, 'locale access before acquire',
                                     f'`{gn.text()[:60]}` runs before the lock is acquired: a '
                                     f'thread entering while another is inside its collation block '
                                     f'records that thread\'s temporary locale and restores it on '
                                     f'exit (LC_COLLATE stays changed after both evaluations)',
                                     CFG.fmt_path(p)))
                else:
                    res.ok()
            # E: __exit__: every normal path on which the state attribute says "lock taken"
            # (i.e. not through the `attr is None` branch) passes a release
            for attr in sorted(state_attrs):
                def taken_edge(nd: Node, lb: str, attr=attr) -> bool:
                    if nd.kind == 'test' and nd.ast is not None:
                        t = stmt_text(nd.ast.test if isinstance(nd.ast, (ast.If, ast.While))
                                      else nd.ast)
                        if t == f'{attr} is None' and lb == 'true':
                            return False
                        if t == f'{attr} is not None' and lb == 'false':
                            return False
                    return lb != 'exc'
                p = ecfg.path_avoiding([ecfg.entry], lambda n: n is ecfg.exit, is_rel,
                                       edge_ok=taken_edge)
                if p is not None:
                    res.fail(finding('R19.1', ex, ex.node, 'exit-without-release',
                                     f'__exit__ has a normal path on which {attr} is not None '
                                     f'(the lock was taken by __enter__) that returns without '
                                     f'release(): the lock stays held and every later collation '
                                     f'in another thread blocks', CFG.fmt_path(p)))
                else:
                    res.ok()
            # C: __exit__: may-raise nodes before a release need release on the exception path
            res.instances.append(f'{ex.key}: {len(rel_nodes)} release site(s)')
            for mn in ecfg.nodes:
                if not any(lb == 'exc' for lb, _ in mn.succs) or is_rel(mn):
                    continue
                before_release = ecfg.path_avoiding(
                    [mn], is_rel, lambda n: False, follow=lambda lb: lb != 'exc') is not None
                if not before_release:
                    continue
                exc_succs = [s for lb, s in mn.succs if lb == 'exc']
                p = ecfg.path_avoiding(exc_succs, lambda n: n is ecfg.raise_exit, is_rel,
                                       skip_start=False)
                if p is not None:
                    res.fail(finding('R19.1', ex, mn.ast, 'raise-before-release',
                                     f'`{mn.text()[:60]}` can raise before release(): the lock '
                                     f'stays held', CFG.fmt_path([mn] + p)))
                else:
                    res.ok()
                res.samples.append({'rule': 'R19.1', 'function': ex.key,
                                    'may_raise_before_release': mn.text()[:80],
                                    'release_on_exception_path': p is None})
        else:
            p = cfg.path_avoiding(acq, lambda n: n is cfg.exit, is_rel)
            if p is not None:
                res.fail(finding('R19.1', f, f.node, 'acquire->return',
                                 'a path from acquire() returns without release()',
                                 CFG.fmt_path(p)))
            else:
                res.ok()
    # D: every construction of a lock-managing class is a with item
    uses = 0
    for f in model.all_functions():
        with_items = set()
        for n in walk_local(f.node):
            if isinstance(n, (ast.With, ast.AsyncWith)):
                for it in n.items:
                    with_items.add(id(it.context_expr))
        for n in walk_local(f.node):
            if isinstance(n, ast.Call):
                kind, val = model.resolve_expr(f.module, n.func)
                if kind == 'class' and val in managers:
                    uses += 1
                    res.instances.append(f'{f.key}: with {val.name}(...)')
                    if id(n) not in with_items:
                        res.fail(finding('R19.1', f, n, f'{val.name}()',
                                         f'{val.name} constructed outside a `with` statement: '
                                         f'nothing guarantees __exit__'))
                    else:
                        res.ok()
    counts['manager_uses'] = uses
    ctx._c19_managers = managers
    ctx._c19_locks = locks
    return res


# --------------------------------------------------------------------- R19.2
def r19_2(ctx, counts: dict[str, int]) -> RuleResult:
    model: Model = ctx.model
    res = RuleResult(
        'R19.2', 'NO-YIELD-UNDER-LOCK',
        'Inside the body of `with <lock-managing class>(…)` or `with <lock>`: no yield / '
        'yield from (a suspended generator keeps the lock and the switched locale). If the '
        'lock is a non-reentrant threading.Lock, additionally no call in the body may reach '
        '(through the resolved call graph, token dispatch included) a function that acquires '
        'the same lock, and no caller-supplied lazy iterable is consumed there. A reentrant '
        'RLock discharges the second clause by construction.')
    managers: dict[ClassInfo, FuncInfo] = ctx._c19_managers
    locks = ctx._c19_locks
    lock_kinds = {v[2] for v in locks.values()}
    reentrant = lock_kinds == {'RLock'}
    cg: Optional[CallGraph] = None
    acquiring: set[FuncInfo] = set()
    blocks = 0
    for f in model.all_functions():
        for n in walk_local(f.node):
            if not isinstance(n, (ast.With, ast.AsyncWith)):
                continue
            crit = False
            for it in n.items:
                ce = it.context_expr
                if isinstance(ce, ast.Call):
                    kind, val = model.resolve_expr(f.module, ce.func)
                    if kind == 'class' and val in managers:
                        crit = True
                elif lock_ref(model, f.module, ce, locks):
                    crit = True
            if not crit:
                continue
            blocks += 1
            res.instances.append(f'{f.key}: critical section at with L{n.lineno}')
            ys = [x for s in n.body for x in [s, *walk_local(s)]
                  if isinstance(x, (ast.Yield, ast.YieldFrom))]
            if ys:
                res.fail(finding('R19.2', f, ys[0], 'yield',
                                 'generator yields inside the critical section: the lock and '
                                 'LC_COLLATE stay switched while the consumer runs (a nested '
                                 'collation call in the consumer deadlocks)'))
            else:
                res.ok()
            res.samples.append({'rule': 'R19.2', 'function': f.key, 'with_line': n.lineno,
                                'yields_inside': len(ys)})
            if reentrant:
                res.ok()
                continue
            if cg is None:
                cg = ctx.memo('callgraph', lambda: CallGraph(model, ctx.reg))
                direct = {g for g in model.all_functions()
                          if any(_lock_call(model, g.module, x, locks, 'acquire')
                                 for x in walk_local(g.node))}
                # users of the managers acquire too
                for g in model.all_functions():
                    for x in walk_local(g.node):
                        if isinstance(x, ast.Call):
                            k2, v2 = model.resolve_expr(g.module, x.func)
                            if k2 == 'class' and v2 in managers:
                                direct.add(g)
                acquiring = direct
            inner_calls = [x for s in n.body for x in [s, *walk_local(s)]
                           if isinstance(x, ast.Call)]
            site_by_node = {id(s.node): s for s in cg.sites.get(f, [])}
            bad = None
            for c in inner_calls:
                site = site_by_node.get(id(c))
                if site is None:
                    continue
                reach = cg.reachable(site.targets)
                hit = reach & acquiring
                if hit:
                    bad = (c, sorted(h.key for h in hit)[0], site.tier)
                    break
            lazy = None
            params = {a.arg: a.annotation for a in f.node.args.args + f.node.args.kwonlyargs}
            for s in n.body:
                for x in [s, *walk_local(s)]:
                    if isinstance(x, (ast.For, ast.comprehension)):
                        for nm in ast.walk(x.iter):
                            if isinstance(nm, ast.Name) and nm.id in params and \
                                    params[nm.id] is not None and \
                                    any(t in stmt_text(params[nm.id])
                                        for t in ('Iterable', 'Iterator')):
                                lazy = (x.iter, nm.id)
            if bad is not None:
                res.fail(finding('R19.2', f, bad[0], f're-entry via {dotted(bad[0].func)}',
                                 f'non-reentrant lock: call `{stmt_text(bad[0])[:60]}` inside '
                                 f'the critical section can reach {bad[1]} which acquires the '
                                 f'same lock (self-deadlock)', [f'resolution tier: {bad[2]}']))
            elif lazy is not None:
                res.fail(finding('R19.2', f, lazy[0], f'lazy iterable {lazy[1]}',
                                 f'non-reentrant lock: caller-supplied iterable `{lazy[1]}` is '
                                 f'consumed inside the critical section; a lazy generator '
                                 f'argument evaluates sub-expressions under the lock'))
            else:
                res.ok()
    counts['critical_sections'] = blocks
    res.notes.append(f'lock kinds: {sorted(lock_kinds)}; reentrant={reentrant}')
    return res


# --------------------------------------------------------------------- R19.3
ENV_WRITERS = {'putenv', 'unsetenv'}
ENV_READERS = {'environ', 'environb', 'getenv', 'getenvb'}


def r19_3(ctx, counts: dict[str, int]) -> RuleResult:
    model: Model = ctx.model
    res = RuleResult(
        'R19.3', 'GLOBAL-STATE-CONFINEMENT',
        'locale.setlocale with a non-None second argument occurs only in collations.py. '
        'os.environ/getenv is read only inside the functions bound to fn:environment-variable '
        'and fn:available-environment-variables, each read dominated by the branch on which '
        '<context>.allow_environment is true; allow_environment defaults to False and is '
        'stored unchanged; the environment is never written. decimal.getcontext/setcontext are '
        'not called. threading primitives other than the collation lock are not created.')
    env_funcs: set[FuncInfo] = set()
    for rec in ctx.reg.all_records():
        if rec.symbol in ('environment-variable', 'available-environment-variables'):
            for slot, ref in rec.methods.items():
                env_funcs.add(ref.func)
    if len(env_funcs) < 2:
        raise AnalysisError('R19.3: the two fn:*environment* functions were not found in the '
                            'registration model')
    n_setlocale = n_env = n_decimal = n_thread = 0
    for mod in model.modules.values():
        funcs_nodes: list[tuple[Optional[FuncInfo], ast.AST]] = [(None, mod.tree)]
        funcs_nodes += [(f, f.node) for f in mod.functions.values()]
        for f, root in funcs_nodes:
            it = walk_local(root) if f is not None else _module_level(root)
            env_nodes: list[ast.AST] = []
            for n in it:
                if isinstance(n, (ast.Attribute, ast.Name)):
                    kind, val = model.resolve_expr(mod, n) if isinstance(n, ast.Attribute) \
                        else model.resolve(mod, n.id)
                    if kind != 'external':
                        continue
                    if val in ('locale.setlocale',):
                        pass
                    elif val.startswith('os.') and val[3:] in ENV_READERS | ENV_WRITERS:
                        env_nodes.append(n)
                        n_env += 1
                        if val[3:] in ENV_WRITERS:
                            res.fail(finding('R19.3', f, n, val, f'{val} writes the process '
                                             f'environment', module=mod))
                    elif val in ('decimal.getcontext', 'decimal.setcontext'):
                        n_decimal += 1
                        res.fail(finding('R19.3', f, n, val,
                                         f'{val}: the thread-wide decimal context is exposed to '
                                         f'mutation; use decimal.localcontext()', module=mod))
                    elif val in ('threading.Thread', 'threading.Condition', 'threading.Event',
                                 'threading.Semaphore', 'threading.local'):
                        n_thread += 1
                        res.fail(finding('R19.3', f, n, val, f'unexpected threading primitive '
                                         f'{val}', module=mod))
                if isinstance(n, ast.Call):
                    kind, val = model.resolve_expr(mod, n.func)
                    if kind == 'external' and val == 'locale.setlocale':
                        n_setlocale += 1
                        arg = n.args[1] if len(n.args) > 1 else None
                        reads_only = isinstance(arg, ast.Constant) and arg.value is None
                        where = f'{mod.relpath}:{n.lineno} setlocale({stmt_text(arg) if arg else ""})'
                        res.instances.append(where)
                        if not reads_only and mod.name != 'elementpath.collations':
                            res.fail(finding('R19.3', f, n, 'locale.setlocale',
                                             'locale.setlocale changes the process locale '
                                             'outside collations.py', module=mod))
                        else:
                            res.ok()
                if isinstance(n, (ast.Assign, ast.AugAssign, ast.Delete)):
                    tgts = n.targets if isinstance(n, (ast.Assign, ast.Delete)) else [n.target]
                    for t in tgts:
                        if isinstance(t, ast.Subscript):
                            kind, val = model.resolve_expr(mod, t.value)
                            if kind == 'external' and val in ('os.environ', 'os.environb'):
                                res.fail(finding('R19.3', f, n, 'os.environ[]=',
                                                 'the process environment is written',
                                                 module=mod))
            if not env_nodes:
                continue
            if f is None or f not in env_funcs:
                for n in env_nodes:
                    res.fail(finding('R19.3', f, n, 'os.environ',
                                     'the process environment is read outside the two '
                                     'fn:*environment* functions', module=mod))
                continue
            cfg = CFG(f.node)
            facts = branch_facts(cfg)
            for n in env_nodes:
                holder = [c for c in cfg.nodes if any(x is n for x in c.walk())]
                if not holder:
                    raise AnalysisError(f'{f.key}: environment access not located in the CFG')
                fs = facts[holder[0].id]
                gated = any(x.startswith('+') and x.endswith('.allow_environment') for x in fs)
                res.instances.append(f'{f.key}: env read at L{n.lineno} gated={gated}')
                res.samples.append({'rule': 'R19.3', 'function': f.key, 'line': n.lineno,
                                    'dominating_facts': sorted(fs)})
                if gated:
                    res.ok()
                else:
                    res.fail(finding('R19.3', f, n, 'ungated os.environ',
                                     'environment read is not dominated by the '
                                     'allow_environment branch'))
                # mutating method on os.environ
                enc = enclosing_map(f.node).get(id(n), [])
                del enc
            for c in walk_local(f.node):
                if isinstance(c, ast.Call) and isinstance(c.func, ast.Attribute) and \
                        c.func.attr in ('pop', 'update', 'setdefault', 'clear', 'popitem',
                                        '__setitem__', '__delitem__'):
                    kind, val = model.resolve_expr(mod, c.func.value)
                    if kind == 'external' and val in ('os.environ', 'os.environb'):
                        res.fail(finding('R19.3', f, c, f'os.environ.{c.func.attr}',
                                         'the process environment is mutated'))
    counts['setlocale_calls'] = n_setlocale
    counts['env_accesses'] = n_env
    # default of allow_environment
    xc = model.find_class('XPathContext')
    init = xc.methods.get('__init__')
    if init is None:
        raise AnalysisError('XPathContext.__init__ vanished')
    a = init.node.args
    names = [x.arg for x in a.args]
    defaults = dict(zip(names[len(names) - len(a.defaults):], a.defaults))
    for x, d in zip(a.kwonlyargs, a.kw_defaults):
        if d is not None:
            defaults[x.arg] = d
    d = defaults.get('allow_environment')
    if d is None:
        raise AnalysisError('XPathContext.__init__ has no allow_environment default')
    if isinstance(d, ast.Constant) and d.value is False:
        res.ok()
    else:
        res.fail(finding('R19.3', init, d, 'allow_environment default',
                         f'allow_environment defaults to {stmt_text(d)}, not False'))
    stores = [n for n in walk_local(init.node) if isinstance(n, ast.Assign)
              and any(dotted(t) == 'self.allow_environment' for t in n.targets)]
    other_stores = []
    for f in model.all_functions():
        if f is init:
            continue
        for n in walk_local(f.node):
            if isinstance(n, (ast.Assign, ast.AugAssign)):
                tg = n.targets if isinstance(n, ast.Assign) else [n.target]
                if any(isinstance(t, ast.Attribute) and t.attr == 'allow_environment' for t in tg):
                    other_stores.append((f, n))
    if len(stores) == 1 and stmt_text(stores[0].value) == 'allow_environment':
        res.ok()
    else:
        res.fail(finding('R19.3', init, stores[0] if stores else init.node,
                         'self.allow_environment',
                         'XPathContext does not store the allow_environment argument unchanged'))
    for f, n in other_stores:
        res.fail(finding('R19.3', f, n, 'allow_environment store',
                         'allow_environment is overwritten outside XPathContext.__init__'))
    res.instances.append('XPathContext.__init__: allow_environment default and store')
    return res


def _module_level(tree: ast.AST):
    """Walk module-level code, not descending into function bodies."""
    stack = list(ast.iter_child_nodes(tree))
    while stack:
        n = stack.pop()
        yield n
        if isinstance(n, (ast.FunctionDef, ast.AsyncFunctionDef, ast.Lambda)):
            continue
        stack.extend(ast.iter_child_nodes(n))


# --------------------------------------------------------------------- R19.4
XML_SINK_ATTRS = {'XML', 'fromstring', 'XMLParser', 'iterparse', 'XMLPullParser', 'XMLID',
                  'fromstringlist', 'HTML'}


def r19_4(ctx, counts: dict[str, int]) -> RuleResult:
    model: Model = ctx.model
    res = RuleResult(
        'R19.4', 'XML-DEFUSE',
        'Every call of an XML text-parsing entry (etree.XML/fromstring/XMLParser/iterparse/…, '
        'receiver named etree/ElementTree/…etree) in the package either wraps its argument in '
        'defuse_xml(…), or sits on the false branch of `<…>.defuse_xml` with a defused sibling '
        'on the true branch, or parses text that was defused earlier on every path (allow '
        'table, one reason each). parser.defuse_xml defaults to True at class level and in the '
        'constructor that accepts it, and defuse_xml() installs entity-forbidding handlers.')
    sinks = 0
    for f in model.all_functions():
        sites = []
        for n in walk_local(f.node):
            if isinstance(n, ast.Call) and isinstance(n.func, ast.Attribute) \
                    and n.func.attr in XML_SINK_ATTRS:
                recv = dotted(n.func.value)
                last = recv.split('.')[-1]
                if 'etree' in last.lower() or last in ('ElementTree', 'ET', 'lxml'):
                    sites.append(n)
        if not sites:
            continue
        from ..engine.cfg import calls_may_raise
        cfg = CFG(f.node, calls_may_raise)
        facts = branch_facts(cfg)
        for n in sites:
            sinks += 1
            arg = n.args[0] if n.args else None
            wrapped = isinstance(arg, ast.Call) and dotted(arg.func).split('.')[-1] == 'defuse_xml'
            holder = [c for c in cfg.nodes if any(x is n for x in c.walk())]
            fs = facts[holder[0].id] if holder else frozenset()
            opt_out = any(x.startswith('-') and x.endswith('.defuse_xml') for x in fs)
            res.instances.append(f'{f.key}: {stmt_text(n)[:70]} wrapped={wrapped} opt_out={opt_out}')
            res.samples.append({'rule': 'R19.4', 'function': f.key, 'sink': stmt_text(n)[:80],
                                'defused': wrapped, 'on_explicit_opt_out_branch': opt_out})
            if wrapped or opt_out:
                res.ok()
            else:
                res.fail(finding('R19.4', f, n, f'{dotted(n.func)}({stmt_text(arg)[:40] if arg else ""})',
                                 'XML text is parsed without defuse_xml(): entity declarations '
                                 'in expression-supplied text would be expanded'))
    counts['xml_sinks'] = sinks
    # defaults of defuse_xml
    p1 = model.find_class('XPath1Parser')
    a = p1.find_attr('defuse_xml')
    if a is None:
        raise AnalysisError('XPath1Parser.defuse_xml class default vanished')
    if isinstance(a[1], ast.Constant) and a[1].value is True:
        res.ok()
    else:
        res.fail(finding('R19.4', None, a[1], 'defuse_xml class default',
                         f'parser.defuse_xml defaults to {stmt_text(a[1])}', module=a[0].module))
    p30 = model.find_class('XPath30Parser')
    init = p30.methods.get('__init__')
    if init is None:
        raise AnalysisError('XPath30Parser.__init__ vanished')
    kd = {x.arg: d for x, d in zip(init.node.args.kwonlyargs, init.node.args.kw_defaults)}
    d = kd.get('defuse_xml')
    if d is None:
        raise AnalysisError('XPath30Parser.__init__ no longer takes defuse_xml')
    if isinstance(d, ast.Constant) and d.value is True:
        res.ok()
    else:
        res.fail(finding('R19.4', init, d, 'defuse_xml argument default',
                         f'defuse_xml argument defaults to {stmt_text(d)}'))
    # the only stores to self.defuse_xml copy the argument under `if not defuse_xml`
    for f in model.all_functions():
        for n in walk_local(f.node):
            if isinstance(n, ast.Assign) and any(isinstance(t, ast.Attribute)
                                                 and t.attr == 'defuse_xml' for t in n.targets):
                if f is init and stmt_text(n.value) == 'defuse_xml':
                    res.ok()
                else:
                    res.fail(finding('R19.4', f, n, 'defuse_xml store',
                                     'parser.defuse_xml is overwritten'))
    # defuse_xml(): handlers installed
    et = model.module('elementpath.etree')
    dfx = et.toplevel_function('defuse_xml')
    if dfx is None:
        raise AnalysisError('elementpath.etree.defuse_xml vanished')
    safe = [c for c in et.classes.values() if c.name == 'SafeExpatParser']
    if not safe:
        raise AnalysisError('SafeExpatParser vanished')
    reset = safe[0].methods.get('reset')
    installed = set()
    if reset is not None:
        for n in walk_local(reset.node):
            if isinstance(n, ast.Assign):
                for t in n.targets:
                    if isinstance(t, ast.Attribute) and dotted(t.value) == 'self._parser' \
                            and isinstance(n.value, ast.Attribute) \
                            and dotted(n.value.value) == 'self':
                        m = safe[0].methods.get(n.value.attr)
                        if m is not None and any(isinstance(x, ast.Raise)
                                                 for x in m.node.body):
                            installed.add(t.attr)
    need = {'EntityDeclHandler', 'UnparsedEntityDeclHandler', 'ExternalEntityRefHandler'}
    res.instances.append(f'SafeExpatParser.reset installs {sorted(installed)}')
    for h in sorted(need):
        if h in installed:
            res.ok()
        else:
            res.fail(finding('R19.4', reset or dfx, (reset or dfx).node, h,
                             f'SafeExpatParser no longer installs a raising {h}'))
    uses_safe = any(isinstance(n, ast.Call) and dotted(n.func) == 'SafeExpatParser'
                    for n in walk_local(dfx.node))
    passes = any(isinstance(n, ast.Call) and dotted(n.func) == 'pulldom.parse'
                 and len(n.args) >= 2 for n in walk_local(dfx.node))
    # no handler in defuse_xml may swallow the forbidding exception
    swallow = False
    for n in walk_local(dfx.node):
        if isinstance(n, ast.ExceptHandler):
            names = [dotted(e) for e in (n.type.elts if isinstance(n.type, ast.Tuple)
                                         else [n.type])] if n.type is not None else ['*']
            if any(x in ('*', 'Exception', 'BaseException', 'XMLResourceForbidden',
                         'ElementPathError') for x in names):
                if not any(isinstance(x, ast.Raise) for s in n.body for x in ast.walk(s)):
                    swallow = True
    if uses_safe and passes and not swallow:
        res.ok()
    else:
        res.fail(finding('R19.4', dfx, dfx.node, 'defuse_xml body',
                         'defuse_xml no longer runs the text through SafeExpatParser or '
                         'swallows the forbidding exception'))
    # every return of defuse_xml has passed the scan: no text is handed back unscanned because a
    # cheaper test (a regex on the prolog, a substring search) found no DOCTYPE
    from ..engine.cfg import CFG as _CFG
    cfg_d = _CFG(dfx.node)
    scans = [nd for nd in cfg_d.nodes if nd.ast is not None and any(
        isinstance(c, ast.Call) and dotted(c.func) == 'pulldom.parse' for e in nd.exprs()
        for c in ast.walk(e))]
    rets = [nd for nd in cfg_d.nodes if nd.kind == 'stmt' and isinstance(nd.ast, ast.Return)]
    if not scans or not rets:
        raise AnalysisError('defuse_xml: the scan or the returns were not located in the CFG')
    for r_ in rets:
        path = cfg_d.path_avoiding([cfg_d.entry], lambda q: q is r_, lambda q: q in scans,
                                   skip_start=False)
        res.instances.append(f'defuse_xml: `{stmt_text(r_.ast)[:40]}` (L{r_.ast.lineno}) is '
                             f'reached only through the SAX scan: {path is None}')
        if path is None:
            res.ok()
        else:
            res.fail(finding('R19.4', dfx, r_.ast, 'defuse_xml returns unscanned text',
                             f'`{stmt_text(r_.ast)[:40]}` can be reached without running the '
                             f'text through the entity-forbidding parser '
                             f'({cfg_d.fmt_path(path)[:4]}): a pre-test that looks for the '
                             f'DOCTYPE misses forms the XML parser accepts (a comment or a '
                             f'processing instruction before it, a byte order mark, another '
                             f'encoding) and the entity declarations are then expanded'))
    return res


# --------------------------------------------------------------------- R19.5
STATE_MUTATORS = {'append', 'extend', 'insert', 'pop', 'remove', 'clear', 'sort', 'reverse',
                  'update', 'setdefault', 'add', 'discard', 'popitem', 'appendleft'}


def r19_5(ctx, counts: dict[str, int], scope=None, min_writers: int = 6) -> RuleResult:
    model: Model = ctx.model
    res = RuleResult(
        'R19.5', 'PROCESS-STATE-INVENTORY',
        'State that outlives a call — a module-level name (rebound through `global`, or a '
        'module-level container stored into / mutated), a class-level attribute written through '
        '`cls.X` / `ClassName.X`, or a nonlocal of a nested function that its parent returns (a '
        'decorator wrapper) — is written only by the functions of the reviewed inventory in the '
        'allow table (parser construction at import, the Unicode data installer and its lazy '
        'subsets, the two lazily loaded validation schemas). Any other writer is a new '
        'process-wide cache: results then depend on what was evaluated before, possibly under '
        'another configuration (parser, XSD or Unicode version) or by another thread.')
    n = 0
    scanned = 0
    shared_cache: dict[int, set[str]] = {}
    for f in sorted(model.all_functions(), key=lambda q: q.key):
        if scope is not None and not scope(f):
            continue
        scanned += 1
        mod = f.module
        locals_ = set(f.params())
        for nd in walk_local(f.node):
            if isinstance(nd, (ast.Assign, ast.AnnAssign, ast.AugAssign, ast.For, ast.With)):
                tg = nd.targets if isinstance(nd, ast.Assign) else \
                    [it.optional_vars for it in nd.items if it.optional_vars is not None] \
                    if isinstance(nd, ast.With) else [nd.target]
                for t in tg:
                    for x in ast.walk(t):
                        if isinstance(x, ast.Name) and isinstance(x.ctx, ast.Store):
                            locals_.add(x.id)
            if isinstance(nd, (ast.comprehension,)):
                for x in ast.walk(nd.target):
                    if isinstance(x, ast.Name):
                        locals_.add(x.id)
        globs = {g for nd in walk_local(f.node) if isinstance(nd, ast.Global) for g in nd.names}
        nonl = {g for nd in walk_local(f.node) if isinstance(nd, ast.Nonlocal) for g in nd.names}
        escaping = f.parent is not None and any(
            isinstance(r, ast.Return) and isinstance(r.value, ast.Name) and r.value.id == f.name
            for r in walk_local(f.parent.node))
        locals_ -= globs

        def is_shared_base(e: ast.expr) -> str:
            base = e
            first_attr = ''
            while isinstance(base, (ast.Subscript, ast.Attribute)):
                if isinstance(base, ast.Attribute):
                    first_attr = base.attr
                base = base.value
            if not isinstance(base, ast.Name):
                return ''
            nm = base.id
            if nm == 'cls' and isinstance(e, (ast.Attribute, ast.Subscript)):
                return f'class attribute cls.{first_attr}'
            if nm in locals_ or nm in ('self',):
                return ''
            if nm in globs:
                return 'module global ' + nm
            if nm in mod.assigns and e is not base:
                return 'module-level ' + nm
            kind, _ = model.resolve(mod, nm)
            if kind == 'class' and isinstance(e, (ast.Attribute, ast.Subscript)) and e is not base:
                return f'class attribute {nm}.{first_attr}'
            if kind == 'const' and e is not base:
                return 'module-level ' + nm
            return ''
        writes: list[tuple[ast.AST, str]] = []
        for nd in walk_local(f.node):
            tgts: list[ast.expr] = []
            if isinstance(nd, (ast.Assign, ast.Delete)):
                for t in nd.targets:
                    tgts.extend(t.elts if isinstance(t, ast.Tuple) else [t])
            elif isinstance(nd, (ast.AugAssign, ast.AnnAssign)):
                if not (isinstance(nd, ast.AnnAssign) and nd.value is None):
                    tgts = [nd.target]
            for t in tgts:
                if isinstance(t, ast.Name):
                    if t.id in globs:
                        writes.append((nd, 'module global ' + t.id))
                    elif t.id in nonl and escaping:
                        writes.append((nd, f'closure state {t.id} of the returned wrapper'))
                else:
                    w = is_shared_base(t)
                    if w:
                        writes.append((nd, w))
            if isinstance(nd, ast.Call) and isinstance(nd.func, ast.Attribute) and \
                    nd.func.attr in STATE_MUTATORS:
                w = is_shared_base(nd.func.value) if isinstance(
                    nd.func.value, (ast.Attribute, ast.Subscript)) else ''
                if not w and isinstance(nd.func.value, ast.Name):
                    nm = nd.func.value.id
                    if nm not in locals_ and nm != 'self' and (
                            nm in globs or nm in mod.assigns or
                            model.resolve(mod, nm)[0] == 'const'):
                        w = 'module-level ' + nm
                    elif nm in nonl and escaping:
                        w = f'closure state {nm} of the returned wrapper'
                if w:
                    writes.append((nd, w))
        # class-level mutable containers reached through self.X (shared by all instances
        # unless some method rebinds self.X)
        if f.cls is not None:
            if id(f.cls) not in shared_cache:
                rebound_attrs = {t.attr for c_ in [f.cls] + f.cls.mro()
                                 for m_ in c_.methods.values()
                                 for st_ in walk_local(m_.node)
                                 if isinstance(st_, (ast.Assign, ast.AnnAssign))
                                 for t in (st_.targets if isinstance(st_, ast.Assign)
                                           else [st_.target])
                                 if isinstance(t, ast.Attribute) and dotted(t.value) == 'self'}
                sh = set()
                for c_ in [f.cls] + f.cls.mro():
                    for k_, v_ in c_.attrs.items():
                        if k_ in rebound_attrs:
                            continue
                        if isinstance(v_, (ast.Dict, ast.List, ast.Set)) or (
                                isinstance(v_, ast.Call) and dotted(v_.func) in (
                                    'dict', 'list', 'set', 'defaultdict', 'OrderedDict', 'deque')):
                            sh.add(k_)
                shared_cache[id(f.cls)] = sh
            shared_attrs = shared_cache[id(f.cls)]
            for nd in walk_local(f.node):
                tg_: list[ast.expr] = []
                if isinstance(nd, (ast.Assign, ast.Delete)):
                    for t in nd.targets:
                        tg_.extend(t.elts if isinstance(t, ast.Tuple) else [t])
                elif isinstance(nd, ast.AugAssign):
                    tg_ = [nd.target]
                for t in tg_:
                    if isinstance(t, ast.Subscript) and isinstance(t.value, ast.Attribute) and \
                            dotted(t.value.value) == 'self' and t.value.attr in shared_attrs:
                        writes.append((nd, f'class-level container {f.cls.name}.{t.value.attr}'))
                if isinstance(nd, ast.Call) and isinstance(nd.func, ast.Attribute) and \
                        nd.func.attr in STATE_MUTATORS and isinstance(nd.func.value, ast.Attribute) \
                        and dotted(nd.func.value.value) == 'self' and nd.func.value.attr in shared_attrs:
                    writes.append((nd, f'class-level container {f.cls.name}.{nd.func.value.attr}'))
        if not writes:
            continue
        n += 1
        by_state: dict[str, ast.AST] = {}
        for nd, w in writes:
            by_state.setdefault(w, nd)
        res.instances.append(f'{f.key}: writes {sorted(by_state)[:4]}')
        for w, nd in sorted(by_state.items()):
            res.fail(finding('R19.5', f, nd, f'writes {w}',
                             f'{f.name} writes state that outlives the call ({w}): '
                             f'`{stmt_text(nd)[:60]}`. It is not in the reviewed inventory of '
                             f'process-wide state: a cache of this kind makes results depend on '
                             f'earlier evaluations, other configurations or other threads'))
    counts['process_state_writers'] = n
    counts['process_state_scanned_functions'] = scanned
    res.instances.append(f'{scanned} function(s) in scope scanned for writes to module-level, '
                         f'class-level and escaping-closure state; {n} writer(s)')
    res.ok()
    if n < min_writers:
        raise AnalysisError(f'only {n} writers of process-wide state located (inventory shrank)')
    return res


GLOBAL_RNG = {'seed', 'random', 'shuffle', 'randint', 'randrange', 'choice', 'choices', 'sample',
              'uniform', 'getrandbits', 'gauss', 'setstate'}


def r19_6(ctx, counts: dict[str, int]) -> RuleResult:
    """the interpreter-wide random generator and the ElementTree prefix registry"""
    model: Model = ctx.model
    res = RuleResult(
        'R19.6', 'STDLIB-GLOBAL-STATE',
        'Two more pieces of process-wide state live in the standard library. (a) The module '
        'level functions of `random` (seed, random, shuffle, ...) read and advance one hidden '
        'generator shared with the application: the package calls none of them (a generator of '
        'its own, random.Random(seed), is what fn:random-number-generator needs; with '
        'random.seed(seed) an evaluation made the application\'s later random.random() '
        'predictable and threads interfered). (b) <etree>.register_namespace(prefix, uri) writes '
        'the prefix registry that every later ElementTree.tostring of the process uses: each '
        'call site is listed (known findings: the ElementTree API offers no serializer-local '
        'alternative).')
    n = 0
    for mod in model.modules.values():
        for f in mod.functions.values():
            for c in walk_local(f.node):
                if not isinstance(c, ast.Call):
                    continue
                if isinstance(c.func, ast.Attribute) and c.func.attr in GLOBAL_RNG:
                    kind, val = model.resolve_expr(mod, c.func)
                    if kind == 'external' and val == f'random.{c.func.attr}':
                        n += 1
                        res.instances.append(f'{f.key}: L{c.lineno} {stmt_text(c)[:40]}')
                        res.fail(finding('R19.6', f, c, f'global random.{c.func.attr}',
                                         f'`{stmt_text(c)[:50]}` uses the interpreter-wide '
                                         f'random generator: an XPath evaluation reseeds or '
                                         f'advances the generator of the host application '
                                         f'(and of every other thread)'))
                elif isinstance(c.func, ast.Name) and c.func.id in GLOBAL_RNG:
                    kind, val = model.resolve(mod, c.func.id)
                    if kind == 'external' and val == f'random.{c.func.id}':
                        n += 1
                        res.fail(finding('R19.6', f, c, f'global random.{c.func.id}',
                                         f'`{stmt_text(c)[:50]}` uses the interpreter-wide '
                                         f'random generator'))
                if isinstance(c.func, ast.Attribute) and c.func.attr == 'register_namespace':
                    n += 1
                    res.instances.append(f'{f.key}: L{c.lineno} {stmt_text(c)[:50]}')
                    res.fail(finding('R19.6', f, c, 'register_namespace',
                                     f'`{stmt_text(c)[:60]}` writes the process-wide prefix '
                                     f'registry of ElementTree/lxml: the prefixes chosen by every '
                                     f'later tostring() of the application change'))
    rng_ctor = [c for f in model.all_functions() for c in walk_local(f.node)
                if isinstance(c, ast.Call) and dotted(c.func) in ('random.Random', 'Random',
                                                                  'random.SystemRandom')]
    res.instances.append(f'own generators constructed: {len(rng_ctor)}')
    if rng_ctor:
        res.ok()
    counts['stdlib_global_calls'] = n
    counts['own_random_generators'] = len(rng_ctor)
    return res


def r19_7(ctx, counts: dict[str, int]) -> RuleResult:
    """a lazily extended table of a process-wide singleton is iterated through a snapshot"""
    model: Model = ctx.model
    res = RuleResult(
        'R19.7', 'SHARED-LAZY-TABLE-SNAPSHOT',
        'A class with a module-level instance (X = C()) is process-wide state. If one of its '
        'dict attributes is extended outside __init__ (a lazily filled table: a subscript store '
        'in another method), a direct `for .. in self.D[.values()/.items()/.keys()]` in any of '
        'its methods can meet an insertion made by another thread and raise "RuntimeError: '
        'dictionary changed size during iteration", which is not an ElementPathError and depends '
        'on the schedule. Such an iteration goes through a snapshot: list(..), tuple(..), '
        'sorted(..) or .copy(). (\\p{IsNoBlock} requested cold from several threads.)')
    n = 0
    for mod in model.modules.values():
        singletons = set()
        for st in mod.tree.body:
            if isinstance(st, (ast.Assign, ast.AnnAssign)) and isinstance(st.value, ast.Call) \
                    and isinstance(st.value.func, ast.Name) and st.value.func.id in mod.classes:
                singletons.add(st.value.func.id)
        for cname in sorted(singletons):
            cls = mod.classes[cname]
            methods = [f for f in mod.functions.values() if f.cls is cls]
            lazy: dict[str, list[str]] = {}
            for f in methods:
                if f.name in ('__init__', '__new__'):
                    continue
                for x in walk_local(f.node):
                    tg = x.targets if isinstance(x, ast.Assign) else (
                        [x.target] if isinstance(x, ast.AugAssign) else [])
                    for t in tg:
                        for y in ast.walk(t):
                            if isinstance(y, ast.Subscript) and isinstance(y.ctx, ast.Store) \
                                    and dotted(y.value).startswith('self.'):
                                lazy.setdefault(dotted(y.value), []).append(f.name)
            for f in methods:
                if f.name in ('__init__', '__new__'):
                    continue
                for x in walk_local(f.node):
                    its = []
                    if isinstance(x, ast.For):
                        its = [x.iter]
                    elif isinstance(x, (ast.ListComp, ast.SetComp, ast.DictComp,
                                        ast.GeneratorExp)):
                        its = [g.iter for g in x.generators]
                    for it in its:
                        base = it
                        if isinstance(it, ast.Call) and isinstance(it.func, ast.Attribute) \
                                and it.func.attr in ('values', 'items', 'keys') and not it.args:
                            base = it.func.value
                        d = dotted(base)
                        if d not in lazy:
                            continue
                        n += 1
                        res.instances.append(f'{f.key}: L{x.lineno} iterates {stmt_text(it)[:40]} '
                                             f'directly (extended by {sorted(set(lazy[d]))})')
                        res.fail(finding('R19.7', f, x, f'direct iteration of {d}',
                                         f'`{stmt_text(it)[:50]}` iterates the table {d} of the '
                                         f'process-wide {cname} instance directly while '
                                         f'{sorted(set(lazy[d]))[0]}() inserts into it lazily: '
                                         f'another thread can insert during the loop '
                                         f'(RuntimeError: dictionary changed size during '
                                         f'iteration); iterate a snapshot'))
            res.instances.append(f'{mod.name}:{cname}: lazily extended tables {sorted(lazy)}')
            if lazy:
                res.ok()
    counts['lazy_table_direct_iterations'] = n
    return res


def run(ctx) -> dict:
    counts: dict[str, int] = {}
    results = [r19_1(ctx, counts), r19_2(ctx, counts), r19_3(ctx, counts), r19_4(ctx, counts)]
    # the installed Unicode tables and the lazy escape subsets are process-wide state too
    from .c13_unicode import r13_4
    results.append(r13_4(ctx, counts))
    results.append(r19_5(ctx, counts))
    results.append(r19_6(ctx, counts))
    results.append(r19_7(ctx, counts))
    return {
        'results': results,
        'counts': counts,
        'explanation':
            'Static analysis of /repo source. Decided: (1) the collation lock and LC_COLLATE are '
            'released/restored on every exit of CollationManager.__enter__/__exit__ (CFG with '
            'exception edges), every use is a with-item; (2) no generator yields inside a '
            'critical section and a non-reentrant lock is never re-acquired from inside one; '
            '(3) setlocale/os.environ/decimal context/threading primitives are confined and the '
            'environment reads are dominated by the allow_environment gate, default False; '
            '(4) every XML text-parsing sink takes defused text, defaults are True and '
            'SafeExpatParser installs the three forbidding handlers.',
        'not_decided':
            'Equality of concurrent and sequential results (thread schedules), races on the '
            'module-level caches, and that setlocale restores the very same locale value '
            '(values are not tracked).',
        'assumptions': [
            'calls other than acquire/release/isinstance/len may raise; attribute stores do not',
            '__exit__ methods of context managers do not swallow exceptions',
            'the registration model (regmodel) identifies the functions bound to the two '
            'fn:*environment* symbols',
        ],
    }
