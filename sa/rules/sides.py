"""
Side provenance: which of the first two parameters of a function an expression derives from.
Used by the variance rule (R18.6) idea and by the comparator-orientation rule (R16.6).
"""
from __future__ import annotations

import ast
from typing import Optional

from ..engine.srcmodel import dotted


class Sides:
    def __init__(self, params: list[str]) -> None:
        self.env: dict[str, int] = {}
        if len(params) >= 2:
            self.env[params[0]] = 1
            self.env[params[1]] = 2

    def side(self, e: ast.AST) -> Optional[int]:
        """1, 2, or None (no or mixed provenance)"""
        found: set[int] = set()
        for x in ast.walk(e):
            if isinstance(x, ast.Name) and x.id in self.env:
                found.add(self.env[x.id])
        return found.pop() if len(found) == 1 else None

    def bind(self, target: ast.AST, value: ast.AST) -> None:
        if isinstance(target, ast.Name):
            s = self.side(value)
            if s is not None:
                self.env[target.id] = s
            else:
                self.env.pop(target.id, None)
        elif isinstance(target, (ast.Tuple, ast.List)) and isinstance(value, (ast.Tuple, ast.List)) \
                and len(target.elts) == len(value.elts):
            for t, v in zip(target.elts, value.elts):
                self.bind(t, v)
        elif isinstance(target, (ast.Tuple, ast.List)):
            s = self.side(value)
            for t in target.elts:
                if isinstance(t, ast.Name):
                    if s is not None:
                        self.env[t.id] = s
                    else:
                        self.env.pop(t.id, None)

    def bind_for(self, st: ast.For) -> None:
        it = st.iter
        if isinstance(it, ast.Call) and dotted(it.func).split('.')[-1] in ('zip', 'zip_longest') \
                and isinstance(st.target, (ast.Tuple, ast.List)) and \
                len(st.target.elts) == len(it.args):
            for t, a in zip(st.target.elts, it.args):
                self.bind(t, a)
        else:
            self.bind(st.target, it)
