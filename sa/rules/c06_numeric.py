"""
C06 — numeric operators and rounding: the rounding-mode clause only.

R06.1 ROUND-MODE  call sites of the builtin half-to-even round() are confined to the
                  implementation of fn:round-half-to-even and to __round__ protocol methods
"""
from __future__ import annotations

import ast

from ..engine.srcmodel import AnalysisError, Model, dotted, stmt_text, walk_local
from ..engine.report import RuleResult
from .common import finding, operand_helper_calls, expand_bool_temporaries
from .rounding import builtin_round_sites, bound_symbols, half_up_helper, helper_problem


def r06_1(ctx, counts: dict[str, int]) -> RuleResult:
    model = ctx.model
    res = RuleResult(
        'R06.1', 'ROUND-MODE',
        'Every call of the builtin round() in the package (name resolution shows that no '
        'module shadows it) lies in a function bound to the fn:round-half-to-even token or in '
        'a __round__ protocol method. F&O fn:round, fn:substring, fn:subsequence round half '
        'towards positive infinity, which Python\'s half-to-even round() does not; the '
        'repository\'s half-up helper (helpers.round_number, ROUND_HALF_UP/ROUND_HALF_DOWN by '
        'sign, re-checked) is the accepted alternative.')
    hh = half_up_helper(model, strict=False)
    prob = helper_problem(hh)
    if prob:
        res.fail(finding('R06.1', hh, hh.node, 'half-up helper',
                         prob + ': substring, subsequence and fn:round all inherit the rounding '
                                'mode of this helper'))
    else:
        res.ok()
    bound = bound_symbols(ctx.reg)
    sites = builtin_round_sites(model)
    counts['builtin_round_sites'] = len(sites)
    for f, call in sites:
        syms = bound.get(f, set())
        res.instances.append(f'{f.key}: {stmt_text(call)[:50]} (bound to {sorted(syms)})')
        if f.name == '__round__' or syms == {'round-half-to-even'}:
            res.ok()
        else:
            res.fail(finding('R06.1', f, call, f'round({stmt_text(call.args[0])[:30] if call.args else ""}'
                             f'{", …" if len(call.args) > 1 else ""})',
                             f'builtin round() rounds half to even; '
                             f'{"fn:" + sorted(syms)[0] if syms else f.qualname} must round half '
                             f'up (towards positive infinity): e.g. 2.5 -> 3, 25 to tens -> 30'))
        res.samples.append({'rule': 'R06.1', 'function': f.key, 'call': stmt_text(call)[:60]})
    # positive control for the zero-expected part: the round-half-to-even implementation exists
    rhe = [f for f, s in bound.items() if 'round-half-to-even' in s]
    counts['round_half_to_even_impl'] = len(rhe)
    return res


def r06_2(ctx, counts: dict[str, int]) -> RuleResult:
    """Ties towards positive infinity: the rounding mode is chosen by the sign of the number."""
    import ast
    from ..engine.cfg import CFG, calls_may_raise
    from ..engine.dataflow import branch_facts
    from ..engine.srcmodel import dotted, walk_local
    model = ctx.model
    res = RuleResult(
        'R06.2', 'ROUND-SIGN',
        'F&O fn:round breaks ties towards positive infinity: half UP for positive numbers, '
        'half DOWN (towards zero) for negative ones. In the functions bound to fn:round and in '
        'the half-up helper, every Decimal.quantize / to_integral_value(…, rounding=\'ROUND_HALF_UP\') is on the '
        'true branch of a `<number> > 0` test and every ROUND_HALF_DOWN on its false branch; a '
        'quantize without a rounding argument (pure rescale of an already rounded value) is '
        'ignored.')
    bound = bound_symbols(ctx.reg)
    funcs = [f for f, s in bound.items() if 'round' in s] + [half_up_helper(model, strict=False)]
    n = 0
    for f in funcs:
        cfg = CFG(f.node, calls_may_raise)
        facts = branch_facts(cfg)
        for nd in cfg.nodes:
            for x in nd.walk():
                if not (isinstance(x, ast.Call) and isinstance(x.func, ast.Attribute)
                        and x.func.attr in ('quantize', 'to_integral_value', 'to_integral',
                                            'to_integral_exact')):
                    continue
                mode = None
                for k in x.keywords:
                    if k.arg == 'rounding':
                        mode = k.value.value if isinstance(k.value, ast.Constant) \
                            else dotted(k.value).split('.')[-1]
                if len(x.args) > 1:
                    a1 = x.args[1]
                    mode = a1.value if isinstance(a1, ast.Constant) else dotted(a1).split('.')[-1]
                if mode is None:
                    continue
                n += 1
                subject = stmt_text(x.func.value)
                mode_name = [k.value for k in x.keywords if k.arg == 'rounding'
                             and isinstance(k.value, ast.Name)]
                if mode_name:
                    # the mode is chosen beforehand: judge each constant definition of the
                    # variable where it is assigned
                    defs = [(d, d.ast.value.value) for d in cfg.nodes
                            if d.kind == 'stmt' and isinstance(d.ast, ast.Assign)
                            and any(isinstance(t, ast.Name) and t.id == mode_name[0].id
                                    for t in d.ast.targets)
                            and isinstance(d.ast.value, ast.Constant)
                            and isinstance(d.ast.value.value, str)]
                    all_defs = [d for d in cfg.nodes if d.kind == 'stmt'
                                and isinstance(d.ast, (ast.Assign, ast.AugAssign, ast.AnnAssign))
                                and any(isinstance(t, ast.Name) and t.id == mode_name[0].id
                                        for t in ast.walk(d.ast) if isinstance(t, ast.Name)
                                        and isinstance(t.ctx, ast.Store))]
                    if defs and len(defs) == len(all_defs):
                        verdicts = []
                        for d, m_ in defs:
                            fs_d = facts[d.id]
                            pos_d = any(ft in (f'+{subject} > 0', f'-{subject} <= 0')
                                        for ft in fs_d)
                            neg_d = any(ft in (f'-{subject} > 0', f'+{subject} <= 0',
                                               f'+{subject} < 0') for ft in fs_d)
                            verdicts.append((m_ == 'ROUND_HALF_UP' and pos_d)
                                            or (m_ == 'ROUND_HALF_DOWN' and neg_d))
                        res.instances.append(f'{f.key}: {subject}.quantize(rounding='
                                             f'{mode_name[0].id}) with {len(defs)} constant '
                                             f'definitions, each on its side of the sign test: '
                                             f'{all(verdicts)}')
                        if all(verdicts):
                            res.ok()
                            continue
                fs = facts[nd.id]
                pos = any(ft == f'+{subject} > 0' or ft == f'-{subject} <= 0' for ft in fs)
                neg = any(ft == f'-{subject} > 0' or ft == f'+{subject} <= 0'
                          or ft == f'+{subject} < 0' for ft in fs)
                res.instances.append(f'{f.key}: {subject}.quantize(rounding={mode}) '
                                     f'positive-branch={pos} negative-branch={neg}')
                good = (mode == 'ROUND_HALF_UP' and pos) or (mode == 'ROUND_HALF_DOWN' and neg)
                if good:
                    res.ok()
                else:
                    res.fail(finding('R06.2', f, x, f'quantize {mode}',
                                     f'`{stmt_text(x)[:70]}`: {mode} is applied '
                                     f'{"without" if not (pos or neg) else "on the wrong side of"} '
                                     f'the sign test `{subject} > 0`: ties are no longer broken '
                                     f'towards positive infinity for one sign (e.g. '
                                     f'round(-2.5) must be -2, round(2.5) must be 3)'))
    counts['quantize_rounding_sites'] = n
    return res


def r06_3(ctx, counts: dict[str, int]) -> RuleResult:
    """sign of a zero must not be read with an ordering comparison"""
    import re
    from ..engine.cfg import CFG
    from ..engine.dataflow import branch_facts
    model: Model = ctx.model
    res = RuleResult(
        'R06.3', 'ZERO-SIGN-BY-COMPARISON',
        'Contradiction rule (Engler): at a program point where the branch facts establish '
        '`x == 0` (the false edge of `x != 0`, the true edge of `x == 0` or `not x`), an ordering '
        'comparison of x with 0 (`x < 0`, `x > 0`, …) is constant — -0.0 < 0 is False — so one '
        'of its outcomes is dead code; IEEE 754 division by negative zero needs the sign bit '
        '(str()/math.copysign). Scope: the operator and function modules and helpers.')
    mods = [m for m in model.modules.values()
            if m.name.startswith(('elementpath.xpath1', 'elementpath.xpath2', 'elementpath.xpath30',
                                  'elementpath.xpath31')) or m.name == 'elementpath.helpers']
    zero_regions = 0
    for mod in sorted(mods, key=lambda m: m.name):
        for f in sorted(mod.functions.values(), key=lambda q: q.key):
            cmps = [n for n in walk_local(f.node) if isinstance(n, ast.Compare)
                    and len(n.ops) == 1 and isinstance(n.ops[0], (ast.Lt, ast.Gt, ast.LtE, ast.GtE))
                    and isinstance(n.left, ast.Name)
                    and isinstance(n.comparators[0], ast.Constant)
                    and n.comparators[0].value == 0
                    and not isinstance(n.comparators[0].value, bool)]
            if not cmps:
                continue
            cfg = CFG(f.node)
            facts = branch_facts(cfg)
            for c in cmps:
                holder = None
                for nd in cfg.nodes:
                    if nd.ast is None or nd.kind not in ('stmt', 'test'):
                        continue
                    root = nd.ast.test if isinstance(nd.ast, (ast.If, ast.While)) else nd.ast
                    if any(x is c for x in ast.walk(root)):
                        holder = nd
                        break
                if holder is None:
                    continue
                nm = c.left.id                                       # type: ignore[attr-defined]
                fs = facts[holder.id]
                is_zero = f'+{nm} == 0' in fs or f'-{nm}' in fs or f'-{nm} != 0' in fs
                if not is_zero:
                    continue
                zero_regions += 1
                res.fail(finding('R06.3', f, c, f'{stmt_text(c)} where {nm} == 0',
                                 f'`{stmt_text(c)}` is evaluated where `{nm} == 0` is already '
                                 f'established: the comparison is always False, so the sign of '
                                 f'a negative zero is lost and one branch is dead'))
            res.instances.append(f'{f.key}: {len(cmps)} ordering comparisons with 0 examined')
            res.ok()
    # positive anchor: the div operator must read the sign of a zero divisor somewhere
    div = [f for m in mods for f in m.functions.values() if f.name == 'evaluate__div_operator']
    if not div:
        raise AnalysisError('evaluate__div_operator vanished')
    reads_sign = any(
        isinstance(n, ast.Call) and (
            dotted(n.func) in ('math.copysign',) or
            (isinstance(n.func, ast.Attribute) and n.func.attr == 'startswith'
             and isinstance(n.func.value, ast.Call) and dotted(n.func.value.func) == 'str'))
        for n in walk_local(div[0].node))
    res.instances.append(f'{div[0].key}: reads the sign bit of the zero divisor = {reads_sign}')
    # informational only: another sign-reading idiom would be equally valid
    counts['zero_sign_sites'] = zero_regions
    return res


def _operator_func(ctx, symbol: str):
    for rec in ctx.reg.all_records():
        if rec.symbol == symbol:
            ref = rec.method('evaluate')
            if ref is not None and ref.func is not None and ref.origin != 'class':
                return ref.func
    raise AnalysisError(f'evaluate method of {symbol!r} not located')


def r06_4(ctx, counts: dict[str, int]) -> RuleResult:
    """idiv: the floor -> truncation correction depends on inexactness"""
    from ..engine.cfg import CFG
    from ..engine.dataflow import branch_facts
    res = RuleResult(
        'R06.4', 'IDIV-TRUNCATION-CORRECTION',
        'op:numeric-integer-divide truncates towards zero while Python\'s // floors. In the '
        'evaluate method of idiv, a result derived from `a // b` that is corrected by `+ 1` for '
        'negative quotients is corrected only when the division is inexact: the branch facts at '
        'the corrected return contain the negation of an exactness test that relates quotient, '
        'divisor and dividend (`q * b == a`, `a % b == 0`, divmod). Without it every exact '
        'negative quotient is off by one (-6 idiv 2 = -2).')
    f = _operator_func(ctx, 'idiv')
    def has_floordiv(g) -> bool:
        return any(isinstance(x, ast.BinOp) and isinstance(x.op, ast.FloorDiv)
                   for x in walk_local(g.node))
    operands = {x.id for n_ in walk_local(f.node) if isinstance(n_, ast.Assign)
                and isinstance(n_.value, ast.Call)
                and dotted(n_.value.func).split('.')[-1] in ('get_operands', 'get_argument')
                for t in n_.targets for x in (t.elts if isinstance(t, ast.Tuple) else [t])
                if isinstance(x, ast.Name)}
    via = [h for _c, h, _b in operand_helper_calls(ctx.model, f, operands) if has_floordiv(h)]
    if not has_floordiv(f) and not via:
        res.instances.append(f'{f.key}: no // in the implementation (truncating division used)')
        res.ok()
        counts['idiv_corrections'] = 1
        return res
    if via:
        res.notes.append(f'the floor division is performed by {sorted(h.key for h in via)}; the '
                         f'correction is looked for in {f.key}')
    cfg = CFG(f.node)
    facts = branch_facts(cfg)
    n = 0
    for nd in cfg.nodes:
        if nd.kind != 'stmt' or not isinstance(nd.ast, ast.Return) or nd.ast.value is None:
            continue
        v = nd.ast.value
        if not (isinstance(v, ast.BinOp) and isinstance(v.op, (ast.Add, ast.Sub)) and
                isinstance(v.right, ast.Constant) and v.right.value == 1):
            continue
        n += 1
        exact = [fa for fa in facts[nd.id] if fa.startswith('-') and
                 ('*' in fa or '%' in fa or 'divmod' in fa) and '==' in fa]
        res.instances.append(f'{f.key}: `{stmt_text(nd.ast)}` under inexactness fact {exact}')
        if exact:
            res.ok()
        else:
            res.fail(finding('R06.4', f, nd.ast, 'correction without exactness test',
                             f'`{stmt_text(nd.ast)}` corrects the floored quotient whenever it '
                             f'is negative (facts: {sorted(facts[nd.id])[:4]}), also when the '
                             f'division is exact: -6 idiv 2 gives -2 instead of -3'))
    counts['idiv_corrections'] = n
    if via and not n:
        raise AnalysisError(f'{f.key}: the floored quotient comes from '
                            f'{sorted(h.key for h in via)} and no `+ 1` correction is located in '
                            f'the operator: the truncation logic is not in a recognised form')
    return res


def _mod_scope(res: RuleResult, f, operands: set[str], n_ops: int) -> tuple[int, bool]:
    parents: dict[int, ast.AST] = {}
    for a in ast.walk(f.node):
        for c in ast.iter_child_nodes(a):
            parents[id(c)] = a
    for x in walk_local(f.node):
        if not (isinstance(x, ast.BinOp) and isinstance(x.op, ast.Mod)):
            continue
        if not ({y.id for y in ast.walk(x) if isinstance(y, ast.Name)} & operands):
            continue
        n_ops += 1

        def is_abs(e: ast.expr) -> bool:
            return isinstance(e, ast.Call) and dotted(e.func) == 'abs'
        ok = is_abs(x.left) and is_abs(x.right)
        why = 'abs() on both operands' if ok else ''
        if not ok:
            cur: ast.AST = x
            while id(cur) in parents and not ok:
                par = parents[id(cur)]
                if isinstance(par, ast.IfExp) and cur is par.body:
                    t = stmt_text(par.test)
                    if '*' in t and '>= 0' in t:
                        ok, why = True, f'same-sign branch of `{t}`'
                cur = par
                if isinstance(par, ast.stmt):
                    break
        res.instances.append(f'{f.key}: `{stmt_text(x)[:40]}` -> {why or "sign of the divisor"}')
        if ok:
            res.ok()
        else:
            res.fail(finding('R06.5', f, x, f'{stmt_text(x)[:30]} follows the divisor',
                             f'`{stmt_text(x)[:40]}` applies Python\'s % to the raw operands: for '
                             f'int and float the result takes the sign of the divisor '
                             f'(5 mod -3 = 1 instead of 2, -7.5e0 mod 2 = 0.5 instead of -1.5) '
                             f'and a later correction by the divisor is not exact for doubles'))
    fmod = any(isinstance(c, ast.Call) and dotted(c.func) == 'math.fmod'
               for c in walk_local(f.node))
    return n_ops, fmod


def r06_5(ctx, counts: dict[str, int]) -> RuleResult:
    """mod: the result has the sign of the dividend"""
    res = RuleResult(
        'R06.5', 'MOD-SIGN-OF-DIVIDEND',
        'op:numeric-mod returns a result with the sign of the dividend; Python\'s % on int and '
        'float follows the divisor. In the evaluate method of mod every `%` on the evaluated '
        'operands has both operands wrapped in abs() (the sign is applied afterwards), or is '
        'math.fmod, or sits in the true branch of a test that the operands have the same sign '
        '(`a * b >= 0`), or both operands are established to be Decimal (whose % follows the '
        'dividend).')
    f = _operator_func(ctx, 'mod')
    operands: set[str] = set()
    for n in walk_local(f.node):
        if isinstance(n, ast.Assign) and isinstance(n.value, ast.Call) and \
                dotted(n.value.func).split('.')[-1] in ('get_operands', 'get_argument'):
            for t in n.targets:
                for x in (t.elts if isinstance(t, ast.Tuple) else [t]):
                    if isinstance(x, ast.Name):
                        operands.add(x.id)
    # the operator's own body, plus one level of helper functions that receive the operands
    scopes: list[tuple] = [(f, operands)]
    for _call, h, binding in operand_helper_calls(ctx.model, f, operands):
        scopes.append((h, set(binding)))
    n_ops = 0
    fmod = False
    for g, names in scopes:
        n_ops, fm = _mod_scope(res, g, names, n_ops)
        fmod = fmod or fm
    counts['mod_ops'] = n_ops
    if n_ops < 1 and not fmod:
        raise AnalysisError('mod operator: neither % nor math.fmod located')
    return res


def r06_6(ctx, counts: dict[str, int]) -> RuleResult:
    """a zero divisor: IEEE result when EITHER operand is a double/float"""
    res = RuleResult(
        'R06.6', 'ZERO-DIVISOR-PROMOTION',
        'For a zero divisor F&O gives FOAR0001 when both operands are xs:integer/xs:decimal and '
        'the IEEE result (NaN, ±INF) when either operand is xs:double/xs:float, because the other '
        'one is promoted. In the evaluate functions of div and mod a test that selects the IEEE '
        'branch for a zero divisor — `<divisor> == 0 and isinstance(<x>, float)` — must inspect '
        'the class of BOTH operands (or of neither: a test on the divisor alone sends '
        '`1e0 mod 0` to FOAR0001).')
    n = 0
    for sym in ('div', 'mod'):
        f = _operator_func(ctx, sym)
        ops: list[str] = []
        for x in walk_local(f.node):
            if isinstance(x, ast.Assign) and isinstance(x.value, ast.Call) and \
                    dotted(x.value.func).split('.')[-1] == 'get_operands':
                for t in x.targets:
                    ops = [e.id for e in (t.elts if isinstance(t, ast.Tuple) else [t])
                           if isinstance(e, ast.Name)]
        if len(ops) != 2:
            raise AnalysisError(f'{f.key}: operands of {sym} not located')
        dividend, divisor = ops
        for t in [x for x in walk_local(f.node) if isinstance(x, ast.BoolOp)
                  and isinstance(x.op, ast.And)]:
            txt = stmt_text(t)
            nodes = expand_bool_temporaries(f, t)       # named sub-conditions are inlined
            if f'{divisor} == 0' not in txt or not any(
                    isinstance(c, ast.Name) and c.id == 'float' for c in nodes):
                continue
            subjects = {stmt_text(c.args[0]) for c in nodes if isinstance(c, ast.Call)
                        and dotted(c.func) == 'isinstance' and len(c.args) == 2
                        and 'float' in stmt_text(c.args[1])}
            n += 1
            both = {dividend, divisor} <= subjects
            res.instances.append(f'{f.key} [{sym}]: `{txt[:70]}` inspects the class of '
                                 f'{sorted(subjects)}; both operands={both}')
            if both:
                res.ok()
            else:
                res.fail(finding('R06.6', f, t, f'{sym}: zero divisor test on one operand',
                                 f'`{txt[:70]}` chooses the IEEE result for a zero divisor from '
                                 f'the class of {sorted(subjects)} only: with a double dividend '
                                 f'and an integer zero (`1e0 {sym} 0`) the operands are promoted '
                                 f'to xs:double and the result is NaN/INF, not FOAR0001'))
    counts['zero_divisor_tests'] = n
    return res


def r06_7(ctx, counts: dict[str, int]) -> RuleResult:
    """NaN compares false with everything: a sign ladder needs its own NaN arm"""
    res = RuleResult(
        'R06.7', 'NAN-FALLS-THROUGH-SIGN-LADDER',
        'In the evaluate functions of div, idiv and mod, a ladder that classifies an evaluated '
        'operand by comparisons with 0 (`x == 0`, `x > 0`, `x < 0`) — an if/elif chain ending in '
        'a bare `else`, or a run of early-exit `if`s followed by a final return — treats NaN as '
        'the remaining sign, because every comparison with NaN is false. When the last arm '
        'returns an IEEE special value (inf/nan constants) the ladder must test NaN explicitly '
        '(math.isnan on that operand in one of its tests) — otherwise xs:double("NaN") div 0e0 '
        'is -INF.')

    def ladders(body: list[ast.stmt]):
        """(tests, last arm statements, anchor) for elif chains with else and early-exit runs"""
        i = 0
        while i < len(body):
            st = body[i]
            if isinstance(st, ast.If):
                # elif chain
                chain = [st]
                cur = st
                while len(cur.orelse) == 1 and isinstance(cur.orelse[0], ast.If):
                    cur = cur.orelse[0]
                    chain.append(cur)
                if cur.orelse:
                    yield [c.test for c in chain], cur.orelse, cur
                # early-exit run: consecutive ifs without else whose bodies end in return/raise
                run = []
                j = i
                while j < len(body) and isinstance(body[j], ast.If) and not body[j].orelse \
                        and isinstance(body[j].body[-1], (ast.Return, ast.Raise)):
                    run.append(body[j])
                    j += 1
                if len(run) >= 2 and j < len(body) and isinstance(body[j], ast.Return):
                    yield [c.test for c in run], [body[j]], body[j]
                for c in chain:
                    yield from ladders(c.body)
                yield from ladders(cur.orelse)
            else:
                for fld in ('body', 'orelse', 'finalbody'):
                    sub = getattr(st, fld, None)
                    if isinstance(sub, list) and sub and isinstance(sub[0], ast.stmt):
                        yield from ladders(sub)
            i += 1
    n = 0
    seen: set[int] = set()
    for sym in ('div', 'idiv', 'mod'):
        f = _operator_func(ctx, sym)
        for tests, last, anchor in ladders(f.node.body):
            if id(anchor) in seen:
                continue
            subjects: dict[str, int] = {}
            for t in tests:
                for cmp_ in [y for y in ast.walk(t) if isinstance(y, ast.Compare)]:
                    if len(cmp_.ops) == 1 and isinstance(cmp_.ops[0], (ast.Eq, ast.Gt, ast.Lt, ast.GtE, ast.LtE)) \
                            and isinstance(cmp_.left, ast.Name) \
                            and isinstance(cmp_.comparators[0], ast.Constant) \
                            and cmp_.comparators[0].value == 0:
                        subjects[cmp_.left.id] = subjects.get(cmp_.left.id, 0) + 1
            ladder = [s_ for s_, k in subjects.items() if k >= 2]
            if not ladder:
                continue
            special = any(isinstance(y, ast.Call) and dotted(y.func) == 'float' and y.args
                          and isinstance(y.args[0], ast.Constant)
                          and str(y.args[0].value).lower().strip('+-') in ('inf', 'nan')
                          or isinstance(y, ast.Attribute) and dotted(y) in ('math.inf', 'math.nan')
                          for st in last for y in ast.walk(st))
            if not special:
                continue
            seen.add(id(anchor))
            for subj in ladder:
                n += 1
                tests_nan = any(isinstance(y, ast.Call) and dotted(y.func) in ('math.isnan', 'isnan')
                                and y.args and stmt_text(y.args[0]) == subj
                                for t in tests for y in ast.walk(t))
                res.instances.append(f'{f.key} [{sym}]: sign ladder on `{subj}` whose last arm '
                                     f'returns IEEE specials; NaN tested={tests_nan}')
                if tests_nan:
                    res.ok()
                else:
                    res.fail(finding('R06.7', f, anchor, f'{sym}: NaN takes the else arm',
                                     f'the ladder on `{subj}` (== 0, > 0, else) of the {sym} operator '
                                     f'sends a NaN `{subj}` to its last arm: xs:double("NaN") '
                                     f'{sym} 0e0 returns an infinity instead of NaN'))
    counts['sign_ladders'] = n
    return res


def r06_8(ctx, counts: dict[str, int]) -> RuleResult:
    """operand promotion keeps the class of the floating-point operand"""
    from ..engine.cfg import CFG
    from ..engine.dataflow import branch_facts
    model = ctx.model
    res = RuleResult(
        'R06.8', 'FLOAT-CLASS-PRESERVED',
        'xs:float (the Float subclass of float) and xs:double (a plain float) share the branch '
        '`isinstance(opA, float)` of XPathToken.get_operands. When the partner opB is converted '
        'to meet a floating-point opA, the result of xs:float op xs:decimal / xs:integer is '
        'xs:float, so the converted partner is built with the class of opA (`type(opA)(opB)`), '
        'never with a fixed double constructor (float(..), cast_to_double(..), DoubleProxy(..)); '
        'Decimal(..) of the float itself is the duration case. xs:float("3e38") * 2 must '
        'overflow to INF in single precision. (Conversions of xs:untypedAtomic, which is cast to '
        'xs:double by definition, are outside: they are not under an isinstance(.., float) '
        'fact of the other operand.)')
    xt = model.find_class('XPathToken')
    f = xt.methods.get('get_operands') if xt is not None else None
    if f is None:
        raise AnalysisError('XPathToken.get_operands vanished')
    cfg = CFG(f.node)
    facts = branch_facts(cfg)
    n = 0
    for nd in cfg.nodes:
        if nd.kind != 'stmt' or not isinstance(nd.ast, ast.Return) \
                or not isinstance(nd.ast.value, ast.Tuple) or len(nd.ast.value.elts) != 2:
            continue
        floats = {fa[len('+isinstance('):].split(',')[0] for fa in facts[nd.id]
                  if fa.startswith('+isinstance(') and fa.endswith(', float)')}
        if not floats:
            continue
        for e in nd.ast.value.elts:
            if not isinstance(e, ast.Call):
                continue
            n += 1
            callee = stmt_text(e.func)
            args = {y.id for a_ in e.args for y in ast.walk(a_) if isinstance(y, ast.Name)}
            ok = any(callee == f'type({v})' for v in floats) or (
                callee.split('.')[-1] == 'Decimal' and bool(args & floats))
            res.instances.append(f'{f.key}: L{nd.ast.lineno} `{stmt_text(e)[:40]}` beside a float '
                                 f'operand ({"/".join(sorted(floats))}): class preserved: {ok}')
            if ok:
                res.ok()
            else:
                res.fail(finding('R06.8', f, nd.ast, f'partner converted with {callee[:30]}',
                                 f'`{stmt_text(nd.ast)[:70]}` converts the partner of the '
                                 f'floating-point operand {"/".join(sorted(floats))} with '
                                 f'`{callee}`: when that operand is an xs:float the result of the '
                                 f'operator is an xs:double (xs:float("3e38") * 2 is 6e38 instead '
                                 f'of INF); the sibling branches use type(op)(..)'))
    counts['float_partner_conversions'] = n
    if n < 2:
        raise AnalysisError(f'get_operands: {n} conversions beside a float operand located')
    return res


def r06_9(ctx, counts: dict[str, int]) -> RuleResult:
    """xs:float is closed under the arithmetic the operators apply to it"""
    model = ctx.model
    res = RuleResult(
        'R06.9', 'FLOAT-CLOSED-UNDER-ARITHMETIC',
        'xs:float is the Float subclass of float; an operation it does not override falls back to '
        'float and returns a plain float, i.e. an xs:double. The operators of the package apply '
        'to their operands: + - * / % (binary, both orders), unary - and +, and abs() (fn:abs and '
        'the sign handling of mod). The class therefore defines __add__ __sub__ __mul__ '
        '__truediv__ __mod__ with their reflected forms and __neg__ __pos__ __abs__, and each of '
        'them has a return built with self.__class__(..) / Float(..) or returning self. Without '
        '__neg__, -xs:float(1) and xs:float(-7) mod xs:float(2) were xs:double.')
    cls = [c for c in model.find_classes('Float')
           if c.module.name == 'elementpath.datatypes.numeric']
    if not cls:
        raise AnalysisError('datatypes.numeric.Float vanished')
    fl = cls[0]
    need = ['__add__', '__radd__', '__sub__', '__rsub__', '__mul__', '__rmul__', '__truediv__',
            '__rtruediv__', '__mod__', '__rmod__', '__neg__', '__pos__', '__abs__']
    n = 0
    for name in need:
        n += 1
        m = fl.methods.get(name)
        ok = False
        if m is not None:
            for r in walk_local(m.node):
                if isinstance(r, ast.Return) and r.value is not None:
                    t = stmt_text(r.value)
                    if t == 'self' or t.startswith('self.__class__(') or t.startswith('Float(') \
                            or t.startswith('type(self)('):
                        ok = True
        res.instances.append(f'{fl.key}.{name}: defined and closed: {ok}')
        if ok:
            res.ok()
        else:
            res.fail(finding('R06.9', m, m.node if m else fl.node, f'Float.{name}',
                             f'Float (xs:float) has no {name} returning an xs:float: the operation '
                             f'falls back to float and yields an xs:double (-xs:float(1) instance '
                             f'of xs:float is false)', **({} if m else {'module': fl.module})))
    counts['float_dunders'] = n
    return res

def r06_10(ctx, counts: dict[str, int]) -> RuleResult:
    """fn:round($arg, $precision): the operand is returned unchanged only after the precision
    was read, or when it is NaN / infinite / zero"""
    from ..engine.cfg import CFG
    from ..engine.dataflow import branch_facts
    res = RuleResult(
        'R06.10', 'ROUND-IDENTITY-NEEDS-PRECISION',
        'For every finite non-zero number there is a negative $precision for which '
        'fn:round($arg, $precision) differs from $arg (round(1.5e16, -16) is 2e16). In a '
        'function bound to fn:round that reads a second argument, every `return <operand>` '
        '(the first argument handed back unchanged) is therefore dominated by the read of the '
        'second argument, or is reached only under a positive branch fact on math.isnan / '
        'math.isinf of the operand or on the operand being zero. A fast path "a double above '
        '2^52 has no fractional digits" placed before the precision is read fails it.')
    bound = bound_symbols(ctx.reg)
    n = 0
    for f in sorted((f for f, sy in bound.items() if 'round' in sy), key=lambda q: q.key):
        def reads_precision(x: ast.AST) -> bool:
            return isinstance(x, ast.Call) and dotted(x.func).split('.')[-1] == 'get_argument' \
                and (any(k.arg == 'index' and isinstance(k.value, ast.Constant)
                         and k.value.value == 1 for k in x.keywords)
                     or (len(x.args) > 1 and isinstance(x.args[1], ast.Constant)
                         and x.args[1].value == 1))
        if not any(reads_precision(x) for x in walk_local(f.node)):
            continue
        operand = None
        for x in walk_local(f.node):
            if isinstance(x, (ast.Assign, ast.AnnAssign)) and isinstance(x.value, ast.Call) \
                    and dotted(x.value.func).split('.')[-1] == 'get_argument' \
                    and not reads_precision(x.value):
                t = x.targets[0] if isinstance(x, ast.Assign) else x.target
                if isinstance(t, ast.Name):
                    operand = t.id
                    break
        if operand is None:
            raise AnalysisError(f'{f.key}: the operand of fn:round is not bound to a name')
        cfg = CFG(f.node)
        facts = branch_facts(cfg)
        for nd in cfg.nodes:
            if nd.kind != 'stmt' or not isinstance(nd.ast, ast.Return):
                continue
            v = nd.ast.value
            if not (isinstance(v, ast.Name) and v.id == operand):
                continue
            n += 1
            after = cfg.dominated_by(nd, lambda m: any(reads_precision(y) for y in m.walk()))
            fs = facts[nd.id]
            special = [fa for fa in fs if fa.startswith('+') and ' and ' not in fa and (
                f'isnan({operand})' in fa or f'isinf({operand})' in fa
                or fa[1:] in (f'{operand} == 0', f'not {operand}'))] + \
                [fa for fa in fs if fa == f'-{operand}']
            res.instances.append(f'{f.key}: L{nd.ast.lineno} `return {operand}` after the '
                                 f'precision was read={after} special-value facts={special}')
            if after or special:
                res.ok()
            else:
                res.fail(finding('R06.10', f, nd.ast, f'return {operand} before the precision',
                                 f'`return {operand}` at L{nd.ast.lineno} hands the operand back '
                                 f'unchanged on a path that has not read the second argument '
                                 f'and is not restricted to NaN/INF/zero (facts: {sorted(fs)}): '
                                 f'with a negative precision the result must differ '
                                 f'(round(1.5e16, -16) = 2e16)'))
    counts['round_identity_returns'] = n
    if n < 2:
        raise AnalysisError(f'only {n} identity returns located in the two-argument fn:round '
                            f'(2 confirmed: the NaN/INF return and the "no fractional digits" one)')
    return res


def run(ctx) -> dict:
    counts: dict[str, int] = {}
    return {
        'results': [r06_1(ctx, counts), r06_2(ctx, counts), r06_3(ctx, counts), r06_4(ctx, counts),
                    r06_5(ctx, counts), r06_6(ctx, counts),
                    r06_7(ctx, counts), r06_8(ctx, counts),
                    r06_9(ctx, counts), r06_10(ctx, counts)], 'counts': counts,
        'explanation':
            'Decided: the rounding-mode clause of C06 and one IEEE clause (the sign of a zero '
            'divisor is never read through a comparison). Rounding: a who-may-call rule confines '
            'Python\'s half-to-even round() to fn:round-half-to-even and __round__ methods, so '
            'that fn:round and the position rounding of substring/subsequence cannot silently '
            'use banker\'s rounding.',
        'not_decided':
            'Decided as structural necessary conditions: rounding mode by sign, sign of mod, the '
            'inexactness test of the idiv correction, operand-class test of the zero-divisor '
            'branch, the NaN arm of sign ladders. Not decided: exactness of integer/decimal '
            'results, IEEE-754 behaviour in general, the division identity, the result-type '
            'lattice (xs:float is stored with double precision), negative zero results: '
            'statements about values.',
        'assumptions': ['helpers.round_number is the half-up helper (shape re-checked each run)'],
    }
