"""
C18 — sequence-type judgements: signatures and declared return types.

R18.1 SIGNATURE-GRAMMAR      every registered sequence_types literal parses as a SequenceType
                             of XPath 3.1 and its length agrees with nargs
R18.2 RETURN-TYPE-INCLUSION  the item types in the return annotation of each implementing
                             function are within the declared return type of every symbol
                             bound to it
R18.3 HIERARCHY              the atomic hierarchy used by is_instance is XSD's (R10.1)
"""
from __future__ import annotations

import ast
import json
import os
from typing import Optional

from ..engine.srcmodel import AnalysisError, ClassInfo, FuncInfo, Model, dotted, stmt_text
from ..engine.regmodel import RegModel
from ..engine import seqtype
from ..engine.report import RuleResult, Finding
from .common import finding

CONTAINERS = {'Iterator', 'Iterable', 'list', 'List', 'Union', 'Optional', 'tuple', 'Tuple',
              'Sequence', 'NoReturn', 'None', 'cast', 'xlist', 'Generator', 'type', 'Type'}
INT_TYPES = {'integer', 'nonPositiveInteger', 'negativeInteger', 'long', 'int', 'short', 'byte',
             'nonNegativeInteger', 'positiveInteger', 'unsignedLong', 'unsignedInt',
             'unsignedShort', 'unsignedByte'}
# declared atomic type -> Python leaf type names that may carry it (γ)
GAMMA = {
    'string': {'str'}, 'boolean': {'bool'}, 'decimal': {'Decimal', 'int'},
    'double': {'float'}, 'float': {'float', 'Float'}, 'numeric': {'int', 'float', 'Decimal'},
    'anyURI': {'AnyURI', 'str'}, 'QName': {'QName'}, 'NOTATION': {'Notation'},
    'date': {'Date', 'Date10'}, 'dateTime': {'DateTime', 'DateTime10'}, 'time': {'Time'},
    'dateTimeStamp': {'DateTimeStamp'}, 'duration': {'Duration', 'DayTimeDuration',
                                                     'YearMonthDuration'},
    'dayTimeDuration': {'DayTimeDuration'}, 'yearMonthDuration': {'YearMonthDuration'},
    'gDay': {'GregorianDay'}, 'gMonth': {'GregorianMonth'}, 'gMonthDay': {'GregorianMonthDay'},
    'gYear': {'GregorianYear', 'GregorianYear10'},
    'gYearMonth': {'GregorianYearMonth', 'GregorianYearMonth10'},
    'hexBinary': {'HexBinary'}, 'base64Binary': {'Base64Binary'},
    'untypedAtomic': {'UntypedAtomic'}, 'language': {'Language', 'str'},
    'normalizedString': {'NormalizedString', 'str'}, 'token': {'XsdToken', 'str'},
    'NCName': {'NCName', 'str'}, 'Name': {'Name', 'str'}, 'NMTOKEN': {'NMToken', 'str'},
    'ID': {'Id', 'str'}, 'IDREF': {'Idref', 'str'}, 'ENTITY': {'Entity', 'str'},
    'error': set(), 'none': set(),
}
NODE_GAMMA = {'node': None, 'element': {'ElementNode', 'EtreeElementNode', 'SchemaElementNode'},
              'attribute': {'AttributeNode', 'TextAttributeNode', 'SchemaAttributeNode'},
              'document-node': {'DocumentNode', 'EtreeDocumentNode'}, 'text': {'TextNode'},
              'comment': {'CommentNode'}, 'processing-instruction': {'ProcessingInstructionNode'},
              'namespace-node': {'NamespaceNode'}, 'schema-element': {'ElementNode'},
              'schema-attribute': {'AttributeNode'}}


def expand_annotation(model: Model, mod, e: Optional[ast.expr], depth: int = 0) -> set[str]:
    """Leaf type names of an annotation with the aliases of aliases.py expanded."""
    if e is None or depth > 8:
        return set()
    if isinstance(e, ast.Constant):
        if isinstance(e.value, str):
            try:
                return expand_annotation(model, mod, ast.parse(e.value, mode='eval').body,
                                         depth + 1)
            except SyntaxError:
                return {e.value}
        return set()
    if isinstance(e, ast.BinOp) and isinstance(e.op, ast.BitOr):
        return expand_annotation(model, mod, e.left, depth + 1) | \
            expand_annotation(model, mod, e.right, depth + 1)
    if isinstance(e, ast.Subscript):
        head = dotted(e.value).split('.')[-1]
        sl = e.slice.elts if isinstance(e.slice, ast.Tuple) else [e.slice]
        out: set[str] = set()
        if head not in CONTAINERS:
            # generic alias such as OneOrEmpty[T]: expand the alias body, then the argument
            kind, val = model.resolve_expr(mod, e.value) \
                if isinstance(e.value, (ast.Name, ast.Attribute)) else ('', None)
            if kind != 'const':
                out.add(head)
        for x in sl:
            out |= expand_annotation(model, mod, x, depth + 1)
        return out
    if isinstance(e, (ast.Name, ast.Attribute)):
        name = dotted(e).split('.')[-1]
        if name in CONTAINERS or name in ('_T', '_S', 'T'):
            return set()
        kind, val = model.resolve_expr(mod, e)
        if kind == 'const':
            m2, e2 = val
            return expand_annotation(model, m2, e2, depth + 1)
        return {name}
    if isinstance(e, ast.Tuple):
        out = set()
        for x in e.elts:
            out |= expand_annotation(model, mod, x, depth + 1)
        return out
    return set()


def gamma(model: Model, d: str) -> Optional[set[str]]:
    """Python leaf names allowed for declared sequence type d; None = anything."""
    t = seqtype.parse(d)
    it = t[1]
    while it[0] == 'paren':
        it = it[1]
    if it[0] in ('item',):
        return None
    if it[0] == 'empty':
        return set()
    if it[0] == 'function':
        return {'XPathFunction', 'XPathMap', 'XPathArray', '_InlineFunction', 'XPathConstructor'}
    if it[0] == 'map':
        return {'XPathMap'}
    if it[0] == 'array':
        return {'XPathArray'}
    if it[0] == 'kind':
        g = NODE_GAMMA.get(it[1])
        if g is None:
            node = model.find_class('XPathNode')
            return {c.name for c in model.subclasses_of(node)}
        return g
    if it[0] == 'atomic':
        local = it[1].split(':')[-1]
        if local == 'anyAtomicType':
            base = model.find_class('AnyAtomicType')
            return {c.name for c in model.subclasses_of(base)} | \
                {'str', 'bool', 'int', 'float', 'Decimal'}
        if local in INT_TYPES:
            return {'int', 'Integer'} | {c.name for c in
                                         model.subclasses_of(model.find_class('Integer'))}
        if local in GAMMA:
            return GAMMA[local]
    raise AnalysisError(f'no γ for declared type {d!r}')


def r18_1(ctx, counts) -> RuleResult:
    reg: RegModel = ctx.reg
    res = RuleResult(
        'R18.1', 'SIGNATURE-GRAMMAR',
        'Every sequence_types tuple registered through function()/constructor() (all parser '
        'versions) consists of strings that parse with a recursive-descent parser for the '
        'SequenceType production of XPath 3.1, and its length agrees with nargs exactly as '
        'XPath1Parser.function requires: len = nargs + 1 for an int, nargs[0] + 1 for an '
        'open-ended tuple, nargs[1] + 1 for a closed range. Only the last entry (the return '
        'type) may be omitted from the arity count.')
    n = 0
    for rec in sorted(reg.all_records(), key=lambda r: (r.module, r.symbol)):
        st = rec.attrs.get('sequence_types')
        if not st:
            continue
        n += 1
        site = rec.decl_sites[0] if rec.decl_sites else (rec.module, 0)
        res.instances.append(f'{rec.symbol}: {len(st)} types, nargs={rec.attrs.get("nargs")}')
        good = True
        for s in st:
            try:
                seqtype.parse(s)
            except seqtype.SeqTypeError as err:
                good = False
                res.fail(Finding('R18.1', site[0], '', f'{rec.symbol}: {s}',
                                 f'function {rec.symbol!r}: sequence type {s!r} is not a valid '
                                 f'SequenceType ({err})', site[1]))
        nargs = rec.attrs.get('nargs')
        want = None
        if isinstance(nargs, int):
            want = nargs + 1
        elif isinstance(nargs, tuple) and nargs[1] is None:
            want = nargs[0] + 1
        elif isinstance(nargs, tuple):
            want = nargs[1] + 1
        if want is not None and len(st) != want:
            good = False
            res.fail(Finding('R18.1', site[0], '', f'{rec.symbol}: arity',
                             f'function {rec.symbol!r}: {len(st)} sequence types for nargs='
                             f'{nargs} (expected {want}): argument i is checked against the '
                             f'type of argument i±1', site[1]))
        if good:
            res.ok()
        if len(res.samples) < 6:
            res.samples.append({'rule': 'R18.1', 'function': rec.symbol,
                                'sequence_types': list(st), 'nargs': nargs})
    counts['signatures'] = n
    return res


def r18_2(ctx, counts) -> RuleResult:
    model: Model = ctx.model
    reg: RegModel = ctx.reg
    res = RuleResult(
        'R18.2', 'RETURN-TYPE-INCLUSION',
        'For every function bound as evaluate or select of a symbol that declares '
        'sequence_types: the leaf item types of its return annotation (aliases of aliases.py '
        'expanded; containers, None and NoReturn dropped) are each allowed by γ(d) for at least '
        'one declared return type d of the symbols bound to it, with γ from the table in this '
        'module (xs:integer ↦ int, xs:decimal ↦ Decimal|int, xs:numeric ↦ int|float|Decimal, '
        'node() ↦ XPathNode subclasses, function(*) ↦ XPathFunction, item() ↦ anything …). '
        'Functions annotated Any are listed as holes, not discharged. The body is tied to the '
        'annotation by the repository\'s own type checking (mypy); cardinality is not decided.')
    impl: dict[FuncInfo, list[tuple[str, str]]] = {}
    for rec in reg.all_records():
        st = rec.attrs.get('sequence_types')
        if not st:
            continue
        for slot in ('evaluate', 'select'):
            ref = rec.methods.get(slot)
            if ref is not None and ref.origin == 'decorator':
                impl.setdefault(ref.func, []).append((rec.symbol, st[-1]))
    counts['implementations'] = len(impl)
    holes = 0
    for f, decls in sorted(impl.items(), key=lambda kv: kv[0].key):
        leaves = expand_annotation(model, f.module, f.node.returns)
        declared = sorted({d for _, d in decls})
        if not leaves or 'Any' in leaves:
            holes += 1
            res.instances.append(f'{f.key}: annotation {stmt_text(f.node.returns) if f.node.returns else None} '
                                 f'[hole]')
            continue
        allowed: Optional[set[str]] = set()
        for d in declared:
            g = gamma(model, d)
            if g is None:
                allowed = None
                break
            allowed |= g            # type: ignore[operator]
        res.instances.append(f'{f.key}: returns {sorted(leaves)} declared {declared}')
        if allowed is None:
            res.ok()
            continue
        generic = {'XPathNode', 'XPathFunction', 'AnyAtomicType', 'str', 'bool', 'int', 'float',
                   'Decimal'}
        if generic <= leaves:
            holes += 1
            res.instances[-1] += ' [hole: generic item annotation]'
            continue
        # subclass closure for repo classes
        bad = []
        too_general = []
        for leaf in sorted(leaves):
            if leaf in allowed:
                continue
            cs = model.find_classes(leaf)
            if cs and any(any(a == b.name for a in allowed) for b in cs[0].mro()):
                continue
            # an annotation that names a common superclass of allowed classes is imprecise,
            # not wrong: inclusion cannot be established -> hole
            if cs and any(model.find_classes(a) and model.find_classes(a)[0].is_subclass_of(cs[0])
                          for a in allowed):
                too_general.append(leaf)
                continue
            bad.append(leaf)
        if too_general and not bad:
            holes += 1
            res.instances[-1] += f' [hole: annotation {too_general} is a superclass of the declared types]'
            continue
        if len(res.samples) < 8:
            res.samples.append({'rule': 'R18.2', 'function': f.key, 'annotation_leaves':
                                sorted(leaves), 'declared': declared})
        if not bad:
            res.ok()
        else:
            res.fail(finding('R18.2', f, f.node, f'{sorted({s for s, _ in decls})[0]} returns '
                             f'{"|".join(bad)}',
                             f'{f.name} (fn:{",".join(sorted({s for s, _ in decls}))[:60]}) is '
                             f'declared to return {declared} but its annotation admits '
                             f'{bad}: a successful call can return a value that does not match '
                             f'the registered signature'))
    counts['annotation_holes'] = holes
    return res


def r18_6(ctx, counts) -> RuleResult:
    """function-type variance in is_sequence_type_restriction"""
    model: Model = ctx.model
    res = RuleResult(
        'R18.6', 'FUNCTION-TYPE-VARIANCE',
        'In sequence_types.is_sequence_type_restriction(st1, st2) ("st2 is a restriction of '
        'st1") the recursive calls of the function-test branch follow XPath 3.1 §2.5.6.2: the '
        'call on the parameter types (derived from element [0] of the `) as ` partition) swaps '
        'the sides — contravariant — and the call on the return types (element [2]) keeps them '
        '— covariant. Sides are tracked by a provenance walk from the two parameters through '
        'slices, partition/split, zip targets and rebinding.')
    mod = model.module('elementpath.sequence_types')
    f = mod.toplevel_function('is_sequence_type_restriction')
    if f is None:
        raise AnalysisError('sequence_types.is_sequence_type_restriction vanished')
    params = f.params()
    if len(params) < 2:
        raise AnalysisError('is_sequence_type_restriction: two parameters expected')
    env: dict[str, tuple[int, Optional[str]]] = {params[0]: (1, None), params[1]: (2, None)}

    def derive(e: ast.AST) -> Optional[tuple[int, Optional[str]]]:
        if isinstance(e, ast.Name):
            return env.get(e.id)
        if isinstance(e, ast.Subscript):
            base = derive(e.value)
            if base is None:
                return None
            if isinstance(e.slice, ast.Constant) and isinstance(e.slice.value, int) and \
                    base[1] == 'parts':
                return (base[0], {0: 'params', 2: 'ret'}.get(e.slice.value))
            return base
        if isinstance(e, ast.Call) and isinstance(e.func, ast.Attribute):
            base = derive(e.func.value)
            if base is None:
                return None
            if e.func.attr == 'partition':
                return (base[0], 'parts')
            return base
        if isinstance(e, ast.Call) and isinstance(e.func, ast.Name) and len(e.args) == 1:
            return derive(e.args[0])        # unary normaliser keeps the side
        return None

    def bind(target: ast.AST, value: ast.AST) -> None:
        if isinstance(target, ast.Name):
            d = derive(value)
            if d is not None:
                env[target.id] = d
            else:
                env.pop(target.id, None)
        elif isinstance(target, ast.Tuple) and isinstance(value, ast.Tuple) \
                and len(target.elts) == len(value.elts):
            for t, v in zip(target.elts, value.elts):
                bind(t, v)

    calls: list[tuple[ast.Call, Optional[tuple], Optional[tuple]]] = []

    def walk(stmts: list[ast.stmt]) -> None:
        for st in stmts:
            for n in ast.walk(st) if not isinstance(st, (ast.For, ast.If, ast.While, ast.Try,
                                                        ast.With)) else []:
                if isinstance(n, ast.Call) and dotted(n.func) == f.name and len(n.args) >= 2:
                    calls.append((n, derive(n.args[0]), derive(n.args[1])))
            if isinstance(st, ast.Assign) and len(st.targets) == 1:
                bind(st.targets[0], st.value)
            elif isinstance(st, ast.For):
                it = st.iter
                if isinstance(it, ast.Call) and dotted(it.func).split('.')[-1] in (
                        'zip', 'zip_longest') and isinstance(st.target, ast.Tuple) and \
                        len(st.target.elts) == len(it.args):
                    for t, a in zip(st.target.elts, it.args):
                        bind(t, a)
                else:
                    bind(st.target, it)
                walk(st.body)
                walk(st.orelse)
            elif isinstance(st, ast.If):
                for n in ast.walk(st.test):
                    if isinstance(n, ast.Call) and dotted(n.func) == f.name and len(n.args) >= 2:
                        calls.append((n, derive(n.args[0]), derive(n.args[1])))
                walk(st.body)
                walk(st.orelse)
            elif isinstance(st, (ast.While, ast.With)):
                walk(st.body)
            elif isinstance(st, ast.Try):
                walk(st.body)
                for h in st.handlers:
                    walk(h.body)
                walk(st.orelse)
                walk(st.finalbody)

    walk(f.node.body)
    # recursive calls inside comprehensions: bind the comprehension targets first
    for comp in ast.walk(f.node):
        if isinstance(comp, (ast.GeneratorExp, ast.ListComp)):
            saved = dict(env)
            for g in comp.generators:
                it = g.iter
                if isinstance(it, ast.Call) and dotted(it.func).split('.')[-1] in (
                        'zip', 'zip_longest') and isinstance(g.target, ast.Tuple) and \
                        len(g.target.elts) == len(it.args):
                    for t, a in zip(g.target.elts, it.args):
                        bind(t, a)
                else:
                    bind(g.target, it)
            for n in ast.walk(comp.elt):
                if isinstance(n, ast.Call) and dotted(n.func) == f.name and len(n.args) >= 2:
                    calls[:] = [t_ for t_ in calls if t_[0] is not n]
                    calls.append((n, derive(n.args[0]), derive(n.args[1])))
            env.clear()
            env.update(saved)
    calls[:] = [(c_, a_, b_) for c_, a_, b_ in calls
                if not (a_ is None and b_ is None and any(
                    c_ is c2 and (a2 is not None or b2 is not None) for c2, a2, b2 in calls))]
    # full-length comparison of the two parameter lists
    arity_ok = None
    arity_why = ''
    for n in ast.walk(f.node):
        if isinstance(n, ast.Call) and dotted(n.func).split('.')[-1] == 'zip_longest':
            # both loop targets must be rejected when None
            rejected: set[str] = set()
            targets: set[str] = set()
            for lp in ast.walk(f.node):
                if isinstance(lp, ast.For) and lp.iter is n and isinstance(lp.target, ast.Tuple):
                    targets = {t.id for t in lp.target.elts if isinstance(t, ast.Name)}
                    for st_ in ast.walk(lp):
                        if isinstance(st_, ast.If) and st_.body and \
                                isinstance(st_.body[0], ast.Return) and \
                                isinstance(st_.body[0].value, ast.Constant) and \
                                st_.body[0].value.value is False:
                            for c_ in ast.walk(st_.test):
                                if isinstance(c_, ast.Compare) and len(c_.ops) == 1 and \
                                        isinstance(c_.ops[0], ast.Is) and \
                                        isinstance(c_.comparators[0], ast.Constant) and \
                                        c_.comparators[0].value is None and \
                                        isinstance(c_.left, ast.Name):
                                    rejected.add(c_.left.id)
            if targets and targets <= rejected:
                arity_ok, arity_why = True, 'zip_longest, a missing parameter on either side returns False'
            else:
                arity_ok = False
                arity_why = (f'zip_longest pads the shorter list with None but only '
                             f'{sorted(rejected) or "no side"} is rejected when None')
        elif isinstance(n, ast.Call) and dotted(n.func) == 'zip':
            if any(k.arg == 'strict' and isinstance(k.value, ast.Constant) and k.value.value
                   for k in n.keywords):
                arity_ok, arity_why = True, 'zip(strict=True)'
            elif arity_ok is None:
                lens = [c_ for c_ in ast.walk(f.node) if isinstance(c_, ast.Compare)
                        and len(c_.ops) == 1 and 'len(' in stmt_text(c_.left)
                        and 'len(' in stmt_text(c_.comparators[0])]
                if any(isinstance(c_.ops[0], (ast.NotEq, ast.Eq)) for c_ in lens):
                    arity_ok, arity_why = True, 'zip with an equality test of the two lengths'
                else:
                    arity_ok = False
                    arity_why = ('zip truncates to the shorter list and the lengths are '
                                 + ('only compared one-sidedly (' + stmt_text(lens[0]) + ')'
                                    if lens else 'never compared'))
    if arity_ok is None:
        raise AnalysisError('is_sequence_type_restriction: iteration over the two parameter '
                            'lists not located')
    res.instances.append(f'parameter lists compared over their full length: {arity_ok} ({arity_why})')
    if arity_ok:
        res.ok()
    else:
        res.fail(finding('R18.6', f, f.node, 'function-test arity',
                         f'the parameter lists of the two function tests are not required to '
                         f'have the same length: {arity_why}; a binary function is accepted as '
                         f'function(xs:integer) as xs:integer'))
    seen = {'params': 0, 'ret': 0}
    for call, a, b in calls:
        label = f'{stmt_text(call)[:70]}: args from {a} , {b}'
        res.instances.append(label)
        if a is None or b is None or a[1] != b[1] or a[1] not in ('params', 'ret'):
            raise AnalysisError(f'is_sequence_type_restriction: provenance of the recursive '
                                f'call `{stmt_text(call)[:60]}` not resolved ({a}, {b})')
        seen[a[1]] += 1
        want = (2, 1) if a[1] == 'params' else (1, 2)
        if (a[0], b[0]) == want:
            res.ok()
        else:
            kind = 'parameter' if a[1] == 'params' else 'return'
            res.fail(finding('R18.6', f, call, f'{kind} types variance',
                             f'`{stmt_text(call)[:70]}` compares the {kind} types with the '
                             f'sides {"not swapped" if kind == "parameter" else "swapped"}: '
                             f'function {kind} types are '
                             f'{"contravariant" if kind == "parameter" else "covariant"} in '
                             f'subtype-itemtype (XPath 3.1 2.5.6.2), so e.g. '
                             f'function(xs:integer) as xs:integer would '
                             f'{"accept" if kind == "return" else "reject"} the wrong direction'))
    counts['variance_calls'] = len(calls)
    if not seen['params'] or not seen['ret']:
        raise AnalysisError(f'recursive calls located: {seen}; both a parameter and a return '
                            f'call are expected')
    return res


def r18_7(ctx, counts) -> RuleResult:
    """a sequence matches T* / T+ only if every item matches T"""
    from ..engine.cfg import CFG
    from ..engine.srcmodel import walk_local
    model: Model = ctx.model
    res = RuleResult(
        'R18.7', 'EVERY-ITEM-TESTED',
        'In sequence_types.match_sequence_type the branch for a list of items tests every item '
        'with the item matcher: it is `all(match_st(x, st) for x in v)` without a filter, or a '
        'loop over the list in which every path from the loop header to the next iteration '
        'passes the call match_st(x, …). A memo keyed by type(x) (or any other shortcut) lets '
        '(b, b, c) match element(b)+.')
    mod = model.module('elementpath.sequence_types')
    outer = mod.toplevel_function('match_sequence_type')
    if outer is None:
        raise AnalysisError('sequence_types.match_sequence_type vanished')
    inner = [g for g in mod.functions.values() if g.parent is outer and g.name == 'match_st']
    if not inner:
        raise AnalysisError('match_sequence_type.match_st vanished')
    f = inner[0]
    v = f.params()[0]
    n = 0
    for x in walk_local(f.node):
        if isinstance(x, ast.Call) and dotted(x.func) in ('all', 'any') and x.args and \
                isinstance(x.args[0], (ast.GeneratorExp, ast.ListComp)):
            comp = x.args[0]
            if len(comp.generators) == 1 and dotted(comp.generators[0].iter) == v and \
                    isinstance(comp.elt, ast.Call) and dotted(comp.elt.func) == f.name:
                n += 1
                ok = dotted(x.func) == 'all' and not comp.generators[0].ifs
                res.instances.append(f'{f.key}: {stmt_text(x)[:60]} tests every item={ok}')
                if ok:
                    res.ok()
                else:
                    res.fail(finding('R18.7', f, x, 'filtered or existential item test',
                                     f'`{stmt_text(x)[:60]}` does not test every item of the '
                                     f'sequence against the item type'))
    loops = [lp for lp in walk_local(f.node) if isinstance(lp, ast.For) and dotted(lp.iter) == v
             and any(isinstance(c, ast.Call) and dotted(c.func) == f.name for c in ast.walk(lp))]
    if loops:
        cfg = CFG(f.node)
        for lp in loops:
            n += 1
            head = [nd for nd in cfg.nodes if nd.ast is lp and nd.kind == 'for']
            tests = [nd for nd in cfg.nodes if nd.ast is not None and nd.kind in ('stmt', 'test')
                     and any(isinstance(c, ast.Call) and dotted(c.func) == f.name
                             for c in ast.walk(nd.ast.test if isinstance(nd.ast, (ast.If, ast.While))
                                               else nd.ast))
                     and any(y is nd.ast or y is getattr(nd.ast, 'test', None)
                             for b in lp.body for y in ast.walk(b))]
            if not head or not tests:
                raise AnalysisError(f'{f.key}: item loop / item test not located in the CFG')
            # a path from the header into the body and back to the header avoiding the test
            p = cfg.path_avoiding(head, lambda q: q is head[0], lambda q: q in tests,
                                  follow=None)
            res.instances.append(f'{f.key}: loop over {v} at L{lp.lineno}: every iteration '
                                 f'passes the item test: {p is None}')
            if p is None:
                res.ok()
            else:
                res.fail(finding('R18.7', f, lp, 'iteration skips the item test',
                                 f'an iteration of the loop over the items can complete without '
                                 f'calling {f.name}() for its item ({cfg.fmt_path(p)[:160]}): '
                                 f'(b, b, c) is accepted as element(b)+'))
    # (c) one item of the list is judged for the whole list only when it is the only item
    from ..engine.dataflow import branch_facts
    cfg2 = CFG(f.node)
    facts = branch_facts(cfg2)
    single = (f'+len({v}) == 1', f'-len({v}) != 1', f'-len({v}) > 1', f'+len({v}) < 2',
              f'-len({v}) >= 2')
    n_single = 0
    for nd in cfg2.nodes:
        if nd.kind != 'stmt' or not isinstance(nd.ast, ast.Return) or nd.ast.value is None \
                or f'+isinstance({v}, list)' not in facts[nd.id]:
            continue
        picks = [c for c in ast.walk(nd.ast.value) if isinstance(c, ast.Call)
                 and dotted(c.func) == f.name and c.args and isinstance(c.args[0], ast.Subscript)
                 and dotted(c.args[0].value) == v]
        if not picks:
            continue
        n_single += 1
        ok = any(fa in facts[nd.id] for fa in single)
        res.instances.append(f'{f.key}: L{nd.ast.lineno} `{stmt_text(nd.ast)[:50]}` judges one '
                             f'item of the list; it is the only item: {ok}')
        if ok:
            res.ok()
        else:
            res.fail(finding('R18.7', f, nd.ast, 'one item judged for the whole sequence',
                             f'`{stmt_text(nd.ast)[:60]}` answers for a list of items with the test '
                             f'of `{stmt_text(picks[0].args[0])}` alone and the list is not known '
                             f'to have one item: the other items are not tested (items of the '
                             f'same Python class differ in XSD type: (1, 300) as xs:byte+)'))
    counts['item_quantifiers'] = n
    counts['single_item_shortcuts'] = n_single
    if n < 1 or n_single < 1:
        raise AnalysisError('match_st: the every-item test / the one-item shortcut of the list '
                            'branch was not located')
    return res


def r18_8(ctx, counts) -> RuleResult:
    """`instance of` / `treat as`: the item test sees the item; a mismatch is final"""
    from ..engine.cfg import CFG, assigned_names, node_writes
    from ..engine.dataflow import branch_facts
    from ..engine.srcmodel import walk_local
    from .common import enclosing_map
    res = RuleResult(
        'R18.8', 'ITEM-TEST-SEES-ITEM / MISMATCH-IS-FINAL',
        'In the evaluators bound to `instance` and `treat` the kind / function test of the right '
        'operand is evaluated once per item of the left operand with that item as the context '
        'item: the call self[1].evaluate(X) sits in a loop over self[0].select(..) whose target '
        'is X.item, or every path from the loop header to the call assigns the loop item to '
        'X.item (otherwise every item is judged by the focus of the enclosing expression and '
        '`(1, 2) treat as node()*` succeeds). In the `instance` evaluator a return reached under '
        'the fact that the item test failed (empty result of the test, or is_instance false) does '
        'not mention the occurrence indicator: `*` and `?` relax the cardinality, never the item '
        'type (`1 instance of node()*` is false).')
    funcs: dict[FuncInfo, set[str]] = {}
    for rec in ctx.reg.all_records():
        if rec.symbol in ('instance', 'treat'):
            ref = rec.method('evaluate')
            if ref is not None and ref.func is not None and ref.origin != 'class':
                funcs.setdefault(ref.func, set()).add(rec.symbol)
    if not any('instance' in v for v in funcs.values()) or \
            not any('treat' in v for v in funcs.values()):
        raise AnalysisError(f'evaluators of `instance` / `treat` not located: {funcs}')
    n_calls = n_returns = 0
    for f, syms in sorted(funcs.items(), key=lambda kv: kv[0].key):
        me = f.params()[0]
        cfg = CFG(f.node)
        encl = enclosing_map(f.node)

        def holder(x: ast.AST):
            for nd in cfg.nodes:
                if nd.ast is not None and nd.kind in ('stmt', 'test', 'for') and any(
                        y is x for e in nd.exprs() for y in ast.walk(e)):
                    return nd
            return None

        # (a) the test call sees the loop item
        for c in walk_local(f.node):
            if not (isinstance(c, ast.Call) and isinstance(c.func, ast.Attribute)
                    and c.func.attr in ('evaluate', 'select')
                    and stmt_text(c.func.value) == f'{me}[1]'):
                continue
            n_calls += 1
            label = f'{f.key}: {stmt_text(c)[:50]} (L{c.lineno})'
            if not c.args or not isinstance(c.args[0], ast.Name):
                raise AnalysisError(f'{label}: context argument of the item test not a name')
            cx = c.args[0].id
            loops = [lp for lp in encl.get(id(c), []) if isinstance(lp, ast.For)
                     and f'{me}[0]' in stmt_text(lp.iter)]
            if not loops:
                raise AnalysisError(f'{label}: the item test is not inside a loop over the '
                                    f'items of {me}[0] (idiom not recognised)')
            lp = loops[-1]
            tparts = lp.target.elts if isinstance(lp.target, ast.Tuple) else [lp.target]
            if any(stmt_text(t) == f'{cx}.item' for t in tparts):
                res.instances.append(f'{label}: loop target is {cx}.item')
                res.ok()
                continue
            tnames = set(assigned_names(lp.target))
            head = [nd for nd in cfg.nodes if nd.ast is lp and nd.kind == 'for']
            goal = holder(c)
            if not head or goal is None:
                raise AnalysisError(f'{label}: loop / call not located in the CFG')

            def binds(nd) -> bool:
                return any(t == f'{cx}.item' and isinstance(v, ast.Name) and v.id in tnames
                           for t, v in node_writes(nd))
            path = cfg.path_avoiding(head, lambda q: q is goal, binds,
                                     follow=None)
            res.instances.append(f'{label}: every path from the loop header binds {cx}.item to '
                                 f'the item: {path is None}')
            if path is None:
                res.ok()
            else:
                res.fail(finding('R18.8', f, c, 'item test without the item',
                                 f'`{stmt_text(c)[:50]}` judges the items of {me}[0] but '
                                 f'{cx}.item is not bound to the loop item '
                                 f'({"/".join(sorted(tnames))}) on the path '
                                 f'{cfg.fmt_path(path)[:4]}: every item is judged by the '
                                 f'context item of the enclosing expression, so '
                                 f'`(1, 2) treat as node()*` succeeds when the focus is a node'))
        # (b) a mismatch is not relaxed by the occurrence indicator
        if 'instance' not in syms:
            continue
        occ = {t for nd in cfg.nodes for t, v in node_writes(nd)
               if v is not None and not isinstance(v, (ast.For,)) and any(
                   isinstance(y, ast.Attribute) and y.attr == 'occurrence' for y in ast.walk(v))}
        tested = {t for nd in cfg.nodes for t, v in node_writes(nd)
                  if isinstance(v, ast.Call) and isinstance(v.func, ast.Attribute)
                  and stmt_text(v.func.value) == f'{me}[1]'}
        facts = branch_facts(cfg)
        for nd in cfg.nodes:
            if nd.kind != 'stmt' or not isinstance(nd.ast, ast.Return) or nd.ast.value is None:
                continue
            fs = facts[nd.id]
            mism = [fa for fa in fs if (fa[0] == '-' and (
                fa[1:] in tested or fa[1:].startswith('is_instance(')))
                or (fa[0] == '+' and any(fa[1:] in (f'len({t}) == 0', f'{t} == []',
                                                       f'not {t}') for t in tested))]
            if not mism:
                continue
            n_returns += 1
            uses = [y for y in ast.walk(nd.ast.value)
                    if (isinstance(y, ast.Name) and y.id in occ)
                    or (isinstance(y, ast.Attribute) and y.attr == 'occurrence')]
            res.instances.append(f'{f.key}: L{nd.ast.lineno} `{stmt_text(nd.ast)[:50]}` under '
                                 f'{sorted(mism)[:1]}: independent of the occurrence '
                                 f'indicator: {not uses}')
            if not uses:
                res.ok()
            else:
                res.fail(finding('R18.8', f, nd.ast, 'mismatch relaxed by occurrence',
                                 f'`{stmt_text(nd.ast)[:70]}` is reached when the item does not '
                                 f'match the item type ({sorted(mism)[0]}) and its value depends '
                                 f'on the occurrence indicator: `1 instance of node()*` and '
                                 f'`"x" instance of element()?` are true'))
    counts['item_test_calls'] = n_calls
    counts['mismatch_returns'] = n_returns
    if n_calls < 2 or n_returns < 2:
        raise AnalysisError(f'instance/treat: item test calls {n_calls}, mismatch returns '
                            f'{n_returns}; at least 2 of each are expected')
    return res


def r18_9(ctx, counts) -> RuleResult:
    """what is built as xs:double is a plain float, never the xs:float subclass"""
    from ..engine.cfg import CFG
    from ..engine.dataflow import branch_facts
    model: Model = ctx.model
    res = RuleResult(
        'R18.9', 'XS-DOUBLE-IS-PLAIN-FLOAT',
        'xs:float values are instances of datatypes.Float, a subclass of float that the atomic '
        'hierarchy keeps out of xs:double (DoubleProxy.__subclasshook__). The constructors of '
        'xs:double (DoubleProxy.__new__ / make, DoubleProxy10.__new__) and the helper they '
        'delegate to (helpers.get_double, also behind fn:number and `cast as xs:double`) '
        'therefore return on every path a fresh plain float: float(..), math.nan / math.inf, a '
        'float literal, or the result of another member of this chain; a parameter handed back '
        'unchanged is accepted only under the fact `type(p) is float`. Otherwise '
        'number(xs:float("1.5")) instance of xs:double is false and number#1 applied to an '
        'xs:float raises XPTY0004.')
    chain: list[FuncInfo] = []
    helpers = model.module('elementpath.helpers')
    g = helpers.toplevel_function('get_double')
    if g is None:
        raise AnalysisError('helpers.get_double vanished')
    chain.append(g)
    prox = model.module('elementpath.datatypes.proxies')
    for cname in ('DoubleProxy', 'DoubleProxy10'):
        cls = prox.classes.get(cname)
        if cls is None:
            raise AnalysisError(f'datatypes.proxies.{cname} vanished')
        for mname in ('__new__', 'make'):
            m = cls.methods.get(mname)
            if m is not None:
                chain.append(m)
    names = {f.name for f in chain if f.cls is None}
    n = 0
    for f in chain:
        cfg = CFG(f.node)
        facts = branch_facts(cfg)
        params = set(f.params())
        for nd in cfg.nodes:
            if nd.kind != 'stmt' or not isinstance(nd.ast, ast.Return) or nd.ast.value is None:
                continue
            n += 1
            v = nd.ast.value
            alts = [v]
            plain = True
            why = ''
            while alts:
                e = alts.pop()
                if isinstance(e, ast.IfExp):
                    alts += [e.body, e.orelse]
                    continue
                if isinstance(e, ast.UnaryOp) and isinstance(e.op, (ast.USub, ast.UAdd)):
                    alts.append(e.operand)
                    continue
                if isinstance(e, ast.Constant) and isinstance(e.value, float):
                    continue
                d = dotted(e)
                if d in ('math.nan', 'math.inf', 'nan', 'inf'):
                    continue
                if isinstance(e, ast.Call):
                    cd = dotted(e.func)
                    last = cd.split('.')[-1]
                    if cd == 'float' or last in names or \
                            (cd.startswith(('cls.', 'super().')) and last in ('make', '__new__')):
                        continue
                if isinstance(e, ast.Name) and e.id in params:
                    fs = facts[nd.id]
                    if any(fa == f'+type({e.id}) is float' for fa in fs) or any(
                            fa.startswith('-') and f'isinstance({e.id}, Float)' in fa for fa in fs):
                        continue
                plain = False
                why = stmt_text(e)[:40]
            res.instances.append(f'{f.key}: L{nd.ast.lineno} `{stmt_text(nd.ast)[:50]}` plain '
                                 f'float: {plain}')
            if plain:
                res.ok()
            else:
                res.fail(finding('R18.9', f, nd.ast, 'xs:double built from an unconverted value',
                                 f'`{stmt_text(nd.ast)[:70]}` hands back `{why}` without '
                                 f'float(..): an xs:float argument (datatypes.Float, a float '
                                 f'subclass excluded from xs:double) keeps its class, so '
                                 f'number(xs:float("1.5")) instance of xs:double is false and '
                                 f'`cast as xs:double` yields an xs:float'))
    counts['double_construction_returns'] = n
    if n < 5:
        raise AnalysisError(f'xs:double construction chain: {n} returns located, expected >= 5')
    return res


def r18_10(ctx, counts) -> RuleResult:
    """the occurrence ladder of the subtype test accepts only sub-occurrences"""
    model: Model = ctx.model
    res = RuleResult(
        'R18.10', 'OCCURRENCE-SUBTYPE-SOUND',
        'is_sequence_type_restriction(st1, st2) ("st2 is a subtype of st1") first compares the '
        'occurrence indicators in an if-ladder on st1[-1] / st2[-1] that returns False or strips '
        'the indicators. The ladder is interpreted on the 16 pairs of indicators '
        "('', ?, +, *) x ('', ?, +, *): a pair that is not rejected must be a sub-occurrence "
        "pair (one <= ? <= *, one <= + <= *). Accepting ('', '?') made "
        '`function() as xs:integer? {()} instance of function() as xs:integer` true. (The ladder '
        'may reject more than necessary: the rows the test-suite pins are incomplete, not '
        'unsound.)')
    mod = model.module('elementpath.sequence_types')
    f = mod.toplevel_function('is_sequence_type_restriction')
    if f is None:
        raise AnalysisError('sequence_types.is_sequence_type_restriction vanished')
    p1, p2 = f.params()[:2]

    def last_index(e: ast.AST) -> Optional[str]:
        if isinstance(e, ast.Subscript) and isinstance(e.value, ast.Name) \
                and e.value.id in (p1, p2) and stmt_text(e.slice) == '-1':
            return e.value.id
        return None
    ladder = [st for st in f.node.body if isinstance(st, (ast.If, ast.Assign)) and any(
        last_index(y) for y in ast.walk(st))]
    if not ladder:
        raise AnalysisError('is_sequence_type_restriction: occurrence handling not located')
    # the whole body after the normalisation is interpreted; it stops at the first expression
    # outside the string fragment (the look-ups in the type tables), which is "falls through"
    whole = [st for st in f.node.body
             if not (isinstance(st, ast.Expr) and isinstance(st.value, ast.Constant))
             and not (isinstance(st, ast.Assign) and any(isinstance(y, ast.Call)
                                                         for y in ast.walk(st.value)))]

    class _Stop(Exception):
        pass

    class _Ret(Exception):
        def __init__(self, v):
            self.v = v

    def ev(e: ast.AST, env: dict[str, str]):
        if isinstance(e, ast.Constant):
            return e.value
        if isinstance(e, ast.Tuple):
            return tuple(ev(x, env) for x in e.elts)
        if isinstance(e, ast.Name) and e.id in env:
            return env[e.id]
        if isinstance(e, ast.Subscript) and isinstance(e.value, ast.Name) and e.value.id in env:
            txt = stmt_text(e.slice)
            v = env[e.value.id]
            if txt == '-1':
                return v[-1]
            if txt == ':-1':
                return v[:-1]
            if txt == '0':
                return v[0]
        if isinstance(e, ast.UnaryOp) and isinstance(e.op, ast.Not):
            return not ev(e.operand, env)
        if isinstance(e, ast.IfExp):
            return ev(e.body, env) if ev(e.test, env) else ev(e.orelse, env)
        if isinstance(e, ast.BoolOp):
            if isinstance(e.op, ast.And):
                return all(ev(v, env) for v in e.values)
            return any(ev(v, env) for v in e.values)
        if isinstance(e, ast.Compare) and len(e.ops) == 1:
            a, b = ev(e.left, env), ev(e.comparators[0], env)
            op = e.ops[0]
            if isinstance(op, ast.In):
                return a in b
            if isinstance(op, ast.NotIn):
                return a not in b
            if isinstance(op, ast.Eq):
                return a == b
            if isinstance(op, ast.NotEq):
                return a != b
        if isinstance(e, ast.Call) and isinstance(e.func, ast.Attribute) \
                and e.func.attr == 'endswith' and len(e.args) == 1:
            return ev(e.func.value, env).endswith(ev(e.args[0], env))
        if isinstance(e, ast.Call) and isinstance(e.func, ast.Attribute) \
                and e.func.attr == 'startswith' and len(e.args) == 1:
            return ev(e.func.value, env).startswith(ev(e.args[0], env))
        raise _Stop(f'occurrence ladder: `{stmt_text(e)[:50]}` not interpreted')

    def run(stmts, env):
        for st in stmts:
            if isinstance(st, ast.If):
                run(st.body if ev(st.test, env) else st.orelse, env)
            elif isinstance(st, ast.Assign) and len(st.targets) == 1 \
                    and isinstance(st.targets[0], ast.Name):
                env[st.targets[0].id] = ev(st.value, env)
            elif isinstance(st, ast.Return):
                raise _Ret(ev(st.value, env))
            elif isinstance(st, ast.Pass):
                pass
            else:
                raise AnalysisError(f'occurrence ladder: statement `{stmt_text(st)[:50]}` not '
                                    f'interpreted')
    allowed = {'': {''}, '?': {'', '?'}, '+': {'', '+'}, '*': {'', '?', '+', '*'}}
    n = 0
    for o1 in ('', '?', '+', '*'):
        for o2 in ('', '?', '+', '*'):
            n += 1
            env = {p1: 'xs:T' + o1, p2: 'xs:T' + o2}
            try:
                run(whole, env)
                out = None
            except _Ret as r:
                out = r.v
            except _Stop:
                out = None
            accepted = out is True or (out is None and env[p1] == env[p2])
            sound = (not accepted) or o2 in allowed[o1]
            res.instances.append(f"T{o1 or '(one)'} :> T{o2 or '(one)'}: "
                                 f"{'accepted' if accepted else 'rejected'}; sound: {sound}")
            if sound:
                res.ok()
            else:
                res.fail(finding('R18.10', f, ladder[0], f'occurrence {o1!r} accepts {o2!r}',
                                 f'the occurrence ladder lets `T{o2}` pass as a subtype of '
                                 f'`T{o1}` (the indicator of the second type is stripped or '
                                 f'ignored): a function returning T{o2} is judged an instance of '
                                 f'a function type returning T{o1}'))
    # (b) the empty sequence matches empty-sequence(), T? and T* only
    body = [st for st in f.node.body
            if not (isinstance(st, ast.Expr) and isinstance(st.value, ast.Constant))
            and not (isinstance(st, ast.Assign) and any(isinstance(y, ast.Call)
                                                        for y in ast.walk(st.value)))]
    n_e = 0
    for t1 in ('item()', 'item()+', 'node()', 'node()+'):
        n_e += 1
        env = {p1: t1, p2: 'empty-sequence()'}
        try:
            run(body, env)
            out = None
        except _Ret as r:
            out = r.v
        except _Stop as err:
            raise AnalysisError(str(err))
        res.instances.append(f'{t1} :> empty-sequence(): {"accepted" if out is True else "rejected"}')
        if out is not True:
            res.ok()
        else:
            res.fail(finding('R18.10', f, ladder[0], f'{t1} accepts empty-sequence()',
                             f'is_sequence_type_restriction({t1!r}, "empty-sequence()") is True: '
                             f'() matches empty-sequence() and does not match {t1}, so `function() '
                             f'as empty-sequence() {{()}} instance of function() as {t1}` holds '
                             f'and the subtype relation is unsound for matching'))
    n_acc = sum(1 for i_ in res.instances if ': accepted' in i_ and ':> T' in i_)
    if n_acc < 4 or n_acc > 15:
        raise AnalysisError(f'occurrence pairs accepted: {n_acc} of 16 (the interpretation of '
                            f'is_sequence_type_restriction does not discriminate)')
    counts['occurrence_pairs'] = n
    counts['empty_sequence_rows'] = n_e
    return res


def r18_11(ctx, counts) -> RuleResult:
    """argument type checking: an xs:boolean is not an xs:integer"""
    from ..engine.cfg import CFG
    from ..engine.dataflow import branch_facts
    model: Model = ctx.model
    res = RuleResult(
        'R18.11', 'BOOLEAN-IS-NOT-INTEGER',
        'XPathToken.validated_value(item, cls) is the check behind get_argument(.., cls=C) for '
        'the parameters of the built-in functions. bool is a subclass of int in Python, so '
        '`isinstance(true, int)` holds: every `return v` of that function taken because '
        '`isinstance(v, cls)` held is also under a fact that excludes the pair (v is a bool, cls '
        'is int). Otherwise insert-before((1,2), true(), 3), remove((1,2), true()) and '
        'array:get([1,2], true()) use true() as the position 1 instead of raising XPTY0004.')
    f = model.find_class('XPathToken').methods.get('validated_value')
    if f is None:
        raise AnalysisError('XPathToken.validated_value vanished')
    cfg = CFG(f.node)
    facts = branch_facts(cfg)
    n = 0
    for nd in cfg.nodes:
        if nd.kind != 'stmt' or not isinstance(nd.ast, ast.Return) \
                or not isinstance(nd.ast.value, ast.Name):
            continue
        v = nd.ast.value.id
        fs = facts[nd.id]
        by_class = [fa for fa in fs if fa.startswith('+') and f'isinstance({v}, cls)' in fa]
        if not by_class:
            continue
        n += 1
        excl = [fa for fa in fs if (fa.startswith('-') and f'isinstance({v}, bool)' in fa)
                or (fa.startswith('+') and f'not isinstance({v}, bool)' in fa)]
        res.instances.append(f'{f.key}: L{nd.ast.lineno} `return {v}` under {by_class[0][:50]}: '
                             f'bool/int excluded: {bool(excl)}')
        if excl:
            res.ok()
        else:
            res.fail(finding('R18.11', f, nd.ast, f'return {v} accepts bool as int',
                             f'`return {v}` accepts the value because isinstance({v}, cls) holds, '
                             f'with no exclusion of a bool when cls is int: true() is accepted '
                             f'as the xs:integer 1 by every function that asks for an integer '
                             f'argument (insert-before, remove, array:get, ...)'))
    counts['class_accepting_returns'] = n
    if n < 2:
        raise AnalysisError(f'validated_value: returns under isinstance(v, cls): {n} < 2')
    return res


def r18_12(ctx, counts) -> RuleResult:
    """what validated_result returns has been matched against the declared return type"""
    from ..engine.cfg import CFG
    from ..engine.dataflow import branch_facts
    model: Model = ctx.model
    res = RuleResult(
        'R18.12', 'RESULT-MATCHED-BEFORE-RETURN',
        'XPathFunction.validated_result is the gate through which the value of a built-in '
        'function passes: every `return X` in it is reached under the fact that '
        'match_sequence_type(X, <the declared return type>, ..) holds for the X that is returned '
        '(the fact is established after the last assignment of X), or under the fact that X is '
        'the placeholder token of a partial application (X.symbol == "?"). A value converted by '
        'cast_to_primitive_type is a new value and needs its own match: the conversion promotes '
        'only some items and some types.')
    fs = [f for f in model.all_functions() if f.name == 'validated_result'
          and f.module.name == 'elementpath.xpath_tokens.functions']
    if not fs:
        raise AnalysisError('XPathFunction.validated_result vanished')
    n = 0
    for f in fs:
        cfg = CFG(f.node)
        facts = branch_facts(cfg)
        for nd in cfg.nodes:
            if nd.kind != 'stmt' or not isinstance(nd.ast, ast.Return) or nd.ast.value is None:
                continue
            n += 1
            x = stmt_text(nd.ast.value)
            fa = facts[nd.id]
            ok = any(t.startswith(f'+match_sequence_type({x}, ') for t in fa) \
                or any(t.startswith(f'+{x}.symbol == ') for t in fa)
            res.instances.append(f'{f.key}: L{nd.ast.lineno} `return {x[:30]}` under a successful '
                                 f'match of the returned value: {ok}')
            if ok:
                res.ok()
            else:
                res.fail(finding('R18.12', f, nd.ast, f'unmatched return {x[:30]}',
                                 f'`return {x[:40]}` is reached without the fact '
                                 f'match_sequence_type({x[:20]}, self.sequence_types[-1], ..): the '
                                 f'value leaves the function without having been matched against '
                                 f'the declared return type (facts: {sorted(fa)[:3]})'))
    counts['validated_result_returns'] = n
    if n < 2:
        raise AnalysisError(f'validated_result: {n} returns located')
    return res


def r18_13(ctx, counts) -> RuleResult:
    """a map / array matches a function test only if every entry matches the return type"""
    from ..engine.srcmodel import walk_local
    model: Model = ctx.model
    res = RuleResult(
        'R18.13', 'ENTRIES-QUANTIFIED-UNIVERSALLY',
        'A map is a function(xs:anyAtomicType) as V? and an array a function(xs:integer) as V, '
        'where V is matched by *all* its values (XPath 3.1, 2.5.6.2). In the '
        'match_function_test overrides of the map and array tokens every quantifier over the '
        'entries (`any(..)` / `all(..)` or a loop over self.items() / values() / keys()) is '
        '`all(match_sequence_type(v, ..) for ..)` without a filter — the sibling agreement of the '
        'two classes. With `any`, map{"a":1, 2:"b"} instance of function(xs:string) as '
        'xs:integer? held and the empty map matched nothing.')
    n = 0
    for cname in ('XPathMap', 'XPathArray'):
        cls = model.find_class(cname)
        m = cls.methods.get('match_function_test') if cls is not None else None
        if m is None:
            raise AnalysisError(f'{cname}.match_function_test vanished')
        qs = [x for x in walk_local(m.node) if isinstance(x, ast.Call)
              and dotted(x.func) in ('any', 'all') and x.args
              and isinstance(x.args[0], (ast.GeneratorExp, ast.ListComp))
              and any(isinstance(y, ast.Call) and isinstance(y.func, ast.Attribute)
                      and y.func.attr in ('items', 'values', 'keys')
                      and stmt_text(y.func.value) == 'self'
                      for g in x.args[0].generators for y in ast.walk(g.iter))]
        loops = [lp for lp in walk_local(m.node) if isinstance(lp, ast.For) and any(
            isinstance(y, ast.Call) and isinstance(y.func, ast.Attribute)
            and y.func.attr in ('items', 'values', 'keys') and stmt_text(y.func.value) == 'self'
            for y in ast.walk(lp.iter))]
        for lp in loops:
            # the loop form of all(): a failed item test leaves with False, nothing accepts early
            n += 1
            rejects = [st for st in ast.walk(lp) if isinstance(st, ast.If)
                       and isinstance(st.test, ast.UnaryOp) and isinstance(st.test.op, ast.Not)
                       and any(isinstance(y, ast.Call)
                               and dotted(y.func).split('.')[-1] == 'match_sequence_type'
                               for y in ast.walk(st.test))
                       and any(isinstance(r_, ast.Return) and isinstance(r_.value, ast.Constant)
                               and r_.value.value is False for r_ in st.body)]
            early = [r_ for r_ in ast.walk(lp) if isinstance(r_, ast.Return)
                     and not (isinstance(r_.value, ast.Constant) and r_.value.value is False)]
            ok = bool(rejects) and not early
            res.instances.append(f'{m.key}: loop over the entries at L{lp.lineno} rejects on a '
                                 f'failed item test and never accepts early: {ok}')
            if ok:
                res.ok()
            else:
                res.fail(finding('R18.13', m, lp, 'entries not quantified universally',
                                 f'the loop over the entries of the {cname[5:].lower()} does not '
                                 f'reject on every failed item test, or accepts before the last '
                                 f'entry: one matching entry is enough'))
        if not qs and not loops:
            raise AnalysisError(f'{m.key}: no quantifier over the entries located')
        for q in qs:
            n += 1
            comp = q.args[0]
            ok = dotted(q.func) == 'all' and not any(g.ifs for g in comp.generators) and any(
                isinstance(y, ast.Call) and dotted(y.func).split('.')[-1] == 'match_sequence_type'
                for y in ast.walk(comp.elt))
            res.instances.append(f'{m.key}: `{stmt_text(q)[:60]}` tests every entry: {ok}')
            if ok:
                res.ok()
            else:
                res.fail(finding('R18.13', m, q, 'entries not quantified universally',
                                 f'`{stmt_text(q)[:70]}` does not require every entry of the '
                                 f'{cname[5:].lower()} to match the return type of the function '
                                 f'test: one matching entry is enough and an empty container '
                                 f'matches nothing'))
    counts['entry_quantifiers'] = n
    return res


def run(ctx) -> dict:
    counts: dict[str, int] = {}
    from .c10_datatypes import r10_1, SPEC as C10SPEC
    spec = json.load(open(C10SPEC))
    r3 = r10_1(ctx, counts, spec)
    r3.title = 'HIERARCHY (R18.3 = R10.1)'
    from .c05_purity import r05_1
    r4 = r05_1(ctx, counts, only={'match_function_test', 'match_sequence_type',
                                  'is_sequence_type', 'is_instance', 'validated_result',
                                  'validated_argument', 'validated_value'}, rule='R05.1')
    r4.title = 'JUDGEMENT-PURITY (R18.4 = R05.1 on the sequence-type judgement code)'
    results = [r18_1(ctx, counts), r18_2(ctx, counts), r3, r4, r18_6(ctx, counts),
               r18_7(ctx, counts), r18_8(ctx, counts),
               r18_9(ctx, counts), r18_10(ctx, counts), r18_11(ctx, counts),
               r18_12(ctx, counts), r18_13(ctx, counts)]
    return {
        'results': results, 'counts': counts,
        'explanation':
            'Decided statically: every registered function signature is a well-formed sequence '
            'type of the right length (the judgement code is string-driven, so a malformed '
            'signature silently changes matching); the item types a built-in function is '
            'annotated to return are within its declared return type; the atomic hierarchy used '
            'by is_instance equals XSD\'s (R10.1); the evaluators of `instance of` / `treat as` '
            'judge each item of their operand with the kind test and do not let the occurrence '
            'indicator relax an item mismatch (R18.8); what is built as xs:double is a plain '
            'float on every path of the construction chain (R18.9).',
        'not_decided':
            'The item matching itself (match_sequence_type / the kind tests on values), '
            'reflexivity and transitivity of the string-driven subtype test '
            '(is_sequence_type_restriction) beyond function-type variance, and cardinality of '
            'returned sequences.',
        'assumptions': ['γ table in c18_seqtypes.py', 'annotations are enforced by the '
                        'repository\'s mypy configuration (not re-run in the quick tier)'],
    }


_ = (os, ClassInfo)
