"""Shared rule: call sites of the builtin round() (half-to-even) in the package."""
from __future__ import annotations

import ast

from ..engine.srcmodel import FuncInfo, Model, walk_local
from ..engine.regmodel import RegModel


def builtin_round_sites(model: Model) -> list[tuple[FuncInfo, ast.Call]]:
    out = []
    for f in model.all_functions():
        if model.resolve(f.module, 'round')[0] != 'unknown':
            continue            # shadowed at module level: not the builtin
        local = {a for a in f.params()}
        for n in walk_local(f.node):
            if isinstance(n, ast.Call) and isinstance(n.func, ast.Name) and n.func.id == 'round' \
                    and 'round' not in local:
                out.append((f, n))
    return out


def bound_symbols(reg: RegModel) -> dict[FuncInfo, set[str]]:
    out: dict[FuncInfo, set[str]] = {}
    for f, uses in reg.bound_functions().items():
        out[f] = {s for s, _ in uses}
    return out


def half_up_helper(model: Model, strict: bool = True) -> FuncInfo:
    """The repo's half-up rounding helper: round_number, checked to quantize HALF_UP/HALF_DOWN.
    With strict=False the caller checks `helper_problem()` itself and reports a violation."""
    from ..engine.srcmodel import AnalysisError
    h = model.module('elementpath.helpers').toplevel_function('round_number')
    if h is None:
        raise AnalysisError('helpers.round_number vanished')
    if strict:
        problem = helper_problem(h)
        if problem:
            raise AnalysisError(problem)
    return h


def helper_problem(h: FuncInfo) -> str:
    consts = {n.value for n in walk_local(h.node) if isinstance(n, ast.Constant)}
    if not {'ROUND_HALF_UP', 'ROUND_HALF_DOWN'} <= consts:
        return ('helpers.round_number no longer rounds with Decimal.quantize ROUND_HALF_UP / '
                'ROUND_HALF_DOWN')
    # sign test: HALF_UP for positive numbers, HALF_DOWN otherwise (towards +inf on ties)
    ok = False
    for n in walk_local(h.node):
        if isinstance(n, ast.If) and isinstance(n.test, ast.Compare) \
                and isinstance(n.test.ops[0], ast.Gt):
            up = any(isinstance(c, ast.Constant) and c.value == 'ROUND_HALF_UP'
                     for s in n.body for c in ast.walk(s))
            down = any(isinstance(c, ast.Constant) and c.value == 'ROUND_HALF_DOWN'
                       for s in n.orelse for c in ast.walk(s))
            ok = ok or (up and down)
    if not ok:
        return 'helpers.round_number: HALF_UP for positive / HALF_DOWN otherwise not recognised'
    return ''
