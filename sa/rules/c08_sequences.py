"""
C08 — sequence expressions: two thin clauses.

R08.1 FOCUS-NUMBERING  the inner focus that E[n], position() and last() observe
R08.2 SUBSEQUENCE-ROUND fn:subsequence rounds its position arguments with the half-up helper
"""
from __future__ import annotations

import ast

from ..engine.srcmodel import AnalysisError, dotted, stmt_text, walk_local
from ..engine.report import RuleResult
from .common import finding
from .c01_paths import numbering, focus_frame
from .rounding import builtin_round_sites, bound_symbols, half_up_helper


def positional_args_rounded(f, res: RuleResult, rule: str, fn_name: str, helper: str) -> None:
    """
    Each positional numeric argument (get_argument with index >= 1) must be passed through
    the half-up helper on its own: forward taint 'p<k>' from each get_argument call (through
    float()/int()/arithmetic); every helper call must receive a value that depends on exactly
    one positional argument, and every positional argument must be rounded by some call.
    """
    from ..engine.cfg import CFG
    from ..engine.taint import Taint, State

    def index_of(c: ast.Call):
        idx = None
        if len(c.args) > 1 and isinstance(c.args[1], ast.Constant):
            idx = c.args[1].value
        for k in c.keywords:
            if k.arg == 'index' and isinstance(k.value, ast.Constant):
                idx = k.value.value
        return idx
    srcs = {}
    for n in walk_local(f.node):
        if isinstance(n, ast.Call) and dotted(n.func).endswith('get_argument'):
            idx = index_of(n)
            if isinstance(idx, int) and idx >= 1:
                srcs[id(n)] = f'p{idx}'
    if not srcs:
        raise AnalysisError(f'{f.key}: no positional get_argument found')
    cfg = CFG(f.node)

    def expr_taint(e: ast.AST, st: State, nd) -> set:
        if isinstance(e, ast.Call):
            if id(e) in srcs:
                return {srcs[id(e)]}
            last = dotted(e.func).split('.')[-1]
            if last in ('float', 'int', 'Decimal', 'abs', 'cast', helper, 'max', 'min'):
                out: set = set()
                for a in e.args:
                    out |= T.value_taint(a, st, nd)
                return out
            return set()
        if isinstance(e, ast.BinOp):
            return T.value_taint(e.left, st, nd) | T.value_taint(e.right, st, nd)
        if isinstance(e, ast.UnaryOp):
            return T.value_taint(e.operand, st, nd)
        return set()

    T = Taint.__new__(Taint)
    T.cfg, T.expr_taint, T.iter_taint, T.state_in = cfg, expr_taint, lambda e, st, nd: set(), {}
    T._run()
    rounded_alone: set = set()
    for nd in cfg.nodes:
        st = T.at(nd)
        for x in nd.walk():
            if isinstance(x, ast.Call) and dotted(x.func).split('.')[-1] == helper and x.args:
                kinds = {k for k in T.value_taint(x.args[0], st, nd) if k.startswith('p')}
                res.instances.append(f'{f.key}: {helper}({stmt_text(x.args[0])[:30]}) depends on '
                                     f'{sorted(kinds)}')
                if len(kinds) == 1:
                    rounded_alone |= kinds
                    res.ok()
                elif len(kinds) > 1:
                    res.fail(finding(rule, f, x, f'{helper} of combined arguments',
                                     f'fn:{fn_name}: `{stmt_text(x)[:50]}` rounds a value computed '
                                     f'from {sorted(kinds)} together; F&O rounds each argument '
                                     f'separately (round(a) + round(b) differs from round(a + b) '
                                     f'when both are fractional)'))
    for k in sorted(set(srcs.values())):
        if k in rounded_alone:
            res.ok()
        else:
            res.fail(finding(rule, f, f.node, f'argument {k[1:]} not rounded half-up',
                             f'fn:{fn_name}: argument {int(k[1:]) + 1} is never passed on its own '
                             f'through {helper}(): F&O defines it with fn:round (ties towards '
                             f'positive infinity)'))


def run(ctx) -> dict:
    model = ctx.model
    counts: dict[str, int] = {}
    r1 = RuleResult(
        'R08.1', 'FOCUS-NUMBERING',
        'XPathToken.select_with_focus (the focus that filter predicates, position() and last() '
        'observe) materialises its operand, sets context.size to the length of that list and '
        'numbers the items 1..n in order (enumerate(results, start=1) or an equivalent '
        'recognised idiom); the outer focus (item, size, position, axis) is saved before and '
        'restored on the normal exit, each attribute from its own saved value (R01.1 applied to '
        'this function).')
    base = model.find_class('XPathToken').methods.get('select_with_focus')
    if base is None:
        raise AnalysisError('XPathToken.select_with_focus vanished')
    d, s, node = numbering(base, base.node.body, base.params()[1])
    r1.instances.append(f'{base.key}: numbering={d} size={s}')
    r1.samples.append({'rule': 'R08.1', 'numbering': d, 'size': s})
    if d.startswith('unknown'):
        raise AnalysisError(f'select_with_focus numbering idiom not recognised: {d}')
    if d == 'asc1':
        r1.ok()
    else:
        r1.fail(finding('R08.1', base, node, 'numbering',
                        f'the inner focus must be numbered 1..n but is {d}: E[n] and '
                        f'position() are off'))
    if s == 'ok':
        r1.ok()
    else:
        r1.fail(finding('R08.1', base, node, 'size',
                        f'context.size is {s}: last() does not return the sequence length'))
    mat = [n for n in base.node.body if isinstance(n, ast.Assign)
           and 'self.select' in stmt_text(n.value)
           and (isinstance(n.value, ast.ListComp) or
                (isinstance(n.value, ast.Call) and dotted(n.value.func) in ('list', 'xlist')))]
    if mat:
        r1.ok()
    else:
        r1.fail(finding('R08.1', base, base.node, 'materialise',
                        'the operand is no longer materialised before numbering: last() cannot '
                        'be known while iterating'))
    # the focus is saved before and restored (attribute by attribute, same order) after
    focus_frame(base, base.params()[1], r1)
    counts['select_with_focus'] = 1

    r2 = RuleResult(
        'R08.2', 'SUBSEQUENCE-ROUND',
        'In the function bound to fn:subsequence every positional argument (get_argument with '
        'index >= 1) is passed through the half-up helper round_number and the builtin round() '
        'does not occur.')
    half_up_helper(model)
    bound = bound_symbols(ctx.reg)
    fs = [f for f, s_ in bound.items() if 'subsequence' in s_]
    if len(fs) != 1:
        raise AnalysisError(f'fn:subsequence: expected one implementation, found {len(fs)}')
    for f, call in builtin_round_sites(model):
        if f is fs[0]:
            r2.fail(finding('R08.2', f, call, 'round()',
                            'fn:subsequence uses the builtin half-to-even round()'))
    positional_args_rounded(fs[0], r2, 'R08.2', 'subsequence', 'round_number')
    counts['subsequence_impl'] = len(fs)
    return {
        'results': [r1, r2], 'counts': counts,
        'explanation':
            'Two thin structural clauses of C08 are decided: the focus numbering that '
            'predicates, position() and last() observe (materialised list, size = len, '
            'positions 1..n), and half-up rounding of the position arguments of '
            'fn:subsequence.',
        'not_decided':
            'Every list-model equation of the property (count/head/tail/reverse/insert-before/'
            'remove/index-of/distinct-values/sum/avg/min/max/string-join, quantifier '
            'equivalences): statements over values.',
        'assumptions': ['helpers.round_number is the half-up helper (shape re-checked)'],
    }
