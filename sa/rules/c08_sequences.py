"""
C08 — sequence expressions: two thin clauses.

R08.1 FOCUS-NUMBERING  the inner focus that E[n], position() and last() observe
R08.2 SUBSEQUENCE-ROUND fn:subsequence rounds its position arguments with the half-up helper
"""
from __future__ import annotations

import ast

from ..engine.srcmodel import AnalysisError, dotted, stmt_text, walk_local
from ..engine.report import RuleResult
from .common import finding
from .c01_paths import numbering
from .rounding import builtin_round_sites, bound_symbols, half_up_helper


def positional_args_rounded(f, res: RuleResult, rule: str, fn_name: str, helper: str) -> None:
    """Names assigned from get_argument(index >= 1) must pass through the half-up helper."""
    pos_names: dict[str, ast.AST] = {}
    for n in walk_local(f.node):
        if isinstance(n, (ast.Assign, ast.AnnAssign)) and isinstance(n.value, ast.Call) \
                and dotted(n.value.func).endswith('get_argument'):
            c = n.value
            idx = None
            if len(c.args) > 1 and isinstance(c.args[1], ast.Constant):
                idx = c.args[1].value
            for k in c.keywords:
                if k.arg == 'index' and isinstance(k.value, ast.Constant):
                    idx = k.value.value
            if isinstance(idx, int) and idx >= 1:
                tg = n.targets[0] if isinstance(n, ast.Assign) else n.target
                if isinstance(tg, ast.Name):
                    pos_names[tg.id] = n
    rounded = set()
    for n in walk_local(f.node):
        if isinstance(n, ast.Call) and dotted(n.func).split('.')[-1] == helper:
            for a in n.args:
                for x in ast.walk(a):
                    if isinstance(x, ast.Name):
                        rounded.add(x.id)
    if not pos_names:
        raise AnalysisError(f'{f.key}: no positional get_argument found')
    for name, node in sorted(pos_names.items()):
        res.instances.append(f'{f.key}: positional argument {name} '
                             f'{"rounded with " + helper if name in rounded else "NOT rounded"}')
        if name in rounded:
            res.ok()
        else:
            res.fail(finding(rule, f, node, f'{name} not rounded half-up',
                             f'fn:{fn_name}: the positional argument `{name}` is not passed '
                             f'through {helper}(): F&O defines it with fn:round (ties towards '
                             f'positive infinity)'))


def run(ctx) -> dict:
    model = ctx.model
    counts: dict[str, int] = {}
    r1 = RuleResult(
        'R08.1', 'FOCUS-NUMBERING',
        'XPathToken.select_with_focus (the focus that filter predicates, position() and last() '
        'observe) materialises its operand, sets context.size to the length of that list and '
        'numbers the items 1..n in order (enumerate(results, start=1) or an equivalent '
        'recognised idiom).')
    base = model.find_class('XPathToken').methods.get('select_with_focus')
    if base is None:
        raise AnalysisError('XPathToken.select_with_focus vanished')
    d, s, node = numbering(base, base.node.body, base.params()[1])
    r1.instances.append(f'{base.key}: numbering={d} size={s}')
    r1.samples.append({'rule': 'R08.1', 'numbering': d, 'size': s})
    if d.startswith('unknown'):
        raise AnalysisError(f'select_with_focus numbering idiom not recognised: {d}')
    if d == 'asc1':
        r1.ok()
    else:
        r1.fail(finding('R08.1', base, node, 'numbering',
                        f'the inner focus must be numbered 1..n but is {d}: E[n] and '
                        f'position() are off'))
    if s == 'ok':
        r1.ok()
    else:
        r1.fail(finding('R08.1', base, node, 'size',
                        f'context.size is {s}: last() does not return the sequence length'))
    mat = [n for n in base.node.body if isinstance(n, ast.Assign)
           and 'self.select' in stmt_text(n.value)
           and (isinstance(n.value, ast.ListComp) or
                (isinstance(n.value, ast.Call) and dotted(n.value.func) in ('list', 'xlist')))]
    if mat:
        r1.ok()
    else:
        r1.fail(finding('R08.1', base, base.node, 'materialise',
                        'the operand is no longer materialised before numbering: last() cannot '
                        'be known while iterating'))
    # the predicate compares a numeric predicate with context.position
    counts['select_with_focus'] = 1

    r2 = RuleResult(
        'R08.2', 'SUBSEQUENCE-ROUND',
        'In the function bound to fn:subsequence every positional argument (get_argument with '
        'index >= 1) is passed through the half-up helper round_number and the builtin round() '
        'does not occur.')
    half_up_helper(model)
    bound = bound_symbols(ctx.reg)
    fs = [f for f, s_ in bound.items() if 'subsequence' in s_]
    if len(fs) != 1:
        raise AnalysisError(f'fn:subsequence: expected one implementation, found {len(fs)}')
    positional_args_rounded(fs[0], r2, 'R08.2', 'subsequence', 'round_number')
    for f, call in builtin_round_sites(model):
        if f is fs[0]:
            r2.fail(finding('R08.2', f, call, 'round()',
                            'fn:subsequence uses the builtin half-to-even round()'))
    counts['subsequence_impl'] = len(fs)
    return {
        'results': [r1, r2], 'counts': counts,
        'explanation':
            'Two thin structural clauses of C08 are decided: the focus numbering that '
            'predicates, position() and last() observe (materialised list, size = len, '
            'positions 1..n), and half-up rounding of the position arguments of '
            'fn:subsequence.',
        'not_decided':
            'Every list-model equation of the property (count/head/tail/reverse/insert-before/'
            'remove/index-of/distinct-values/sum/avg/min/max/string-join, quantifier '
            'equivalences): statements over values.',
        'assumptions': ['helpers.round_number is the half-up helper (shape re-checked)'],
    }
