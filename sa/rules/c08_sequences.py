"""
C08 — sequence expressions: four thin clauses.

R08.1 FOCUS-NUMBERING  the inner focus that E[n], position() and last() observe
R08.2 SUBSEQUENCE-ROUND fn:subsequence rounds its position arguments with the half-up helper
"""
from __future__ import annotations

import ast

from ..engine.srcmodel import AnalysisError, dotted, stmt_text, walk_local
from ..engine.report import RuleResult
from .common import finding
from .c01_paths import numbering, focus_frame, flat_body
from .rounding import builtin_round_sites, bound_symbols, half_up_helper


def positional_args_rounded(f, res: RuleResult, rule: str, fn_name: str, helper: str) -> None:
    """
    Each positional numeric argument (get_argument with index >= 1) must be passed through
    the half-up helper on its own: forward taint 'p<k>' from each get_argument call (through
    float()/int()/arithmetic); every helper call must receive a value that depends on exactly
    one positional argument, and every positional argument must be rounded by some call.
    """
    from ..engine.cfg import CFG
    from ..engine.taint import Taint, State

    def index_of(c: ast.Call):
        idx = None
        if len(c.args) > 1 and isinstance(c.args[1], ast.Constant):
            idx = c.args[1].value
        for k in c.keywords:
            if k.arg == 'index' and isinstance(k.value, ast.Constant):
                idx = k.value.value
        return idx
    srcs = {}
    for n in walk_local(f.node):
        if isinstance(n, ast.Call) and dotted(n.func).endswith('get_argument'):
            idx = index_of(n)
            if isinstance(idx, int) and idx >= 1:
                srcs[id(n)] = f'p{idx}'
    if not srcs:
        raise AnalysisError(f'{f.key}: no positional get_argument found')
    cfg = CFG(f.node)
    # one level of wrappers: module-level functions that pass their own first parameter
    # through the half-up helper (e.g. a "round unless NaN/INF" helper)
    wrappers = {g.name for g in f.module.functions.values()
                if g.cls is None and g.parent is None and g.params() and any(
                    isinstance(c, ast.Call) and dotted(c.func).split('.')[-1] == helper and c.args
                    and isinstance(c.args[0], ast.Name) and c.args[0].id == g.params()[0]
                    for c in walk_local(g.node))}
    helpers = {helper} | wrappers

    def expr_taint(e: ast.AST, st: State, nd) -> set:
        if isinstance(e, ast.Call):
            if id(e) in srcs:
                return {srcs[id(e)]}
            last = dotted(e.func).split('.')[-1]
            if last in ('float', 'int', 'Decimal', 'abs', 'cast', 'max', 'min') or last in helpers:
                out: set = set()
                for a in e.args:
                    out |= T.value_taint(a, st, nd)
                return out
            return set()
        if isinstance(e, ast.BinOp):
            return T.value_taint(e.left, st, nd) | T.value_taint(e.right, st, nd)
        if isinstance(e, ast.UnaryOp):
            return T.value_taint(e.operand, st, nd)
        return set()

    T = Taint.__new__(Taint)
    T.cfg, T.expr_taint, T.iter_taint, T.state_in = cfg, expr_taint, lambda e, st, nd: set(), {}
    T._run()
    rounded_alone: set = set()
    for nd in cfg.nodes:
        st = T.at(nd)
        for x in nd.walk():
            if isinstance(x, ast.Call) and dotted(x.func).split('.')[-1] in helpers and x.args:
                kinds = {k for k in T.value_taint(x.args[0], st, nd) if k.startswith('p')}
                res.instances.append(f'{f.key}: {helper}({stmt_text(x.args[0])[:30]}) depends on '
                                     f'{sorted(kinds)}')
                if len(kinds) == 1:
                    rounded_alone |= kinds
                    res.ok()
                elif len(kinds) > 1:
                    res.fail(finding(rule, f, x, f'{helper} of combined arguments',
                                     f'fn:{fn_name}: `{stmt_text(x)[:50]}` rounds a value computed '
                                     f'from {sorted(kinds)} together; F&O rounds each argument '
                                     f'separately (round(a) + round(b) differs from round(a + b) '
                                     f'when both are fractional)'))
    for k in sorted(set(srcs.values())):
        if k in rounded_alone:
            res.ok()
        else:
            res.fail(finding(rule, f, f.node, f'argument {k[1:]} not rounded half-up',
                             f'fn:{fn_name}: argument {int(k[1:]) + 1} is never passed on its own '
                             f'through {helper}(): F&O defines it with fn:round (ties towards '
                             f'positive infinity)'))


def _is_fresh_copy(e: ast.expr, of: str) -> bool:
    return isinstance(e, ast.Call) and dotted(e.func) in ('copy', 'copy.copy') and \
        len(e.args) == 1 and dotted(e.args[0]) == of


def r08_3(ctx, counts) -> RuleResult:
    model = ctx.model
    res = RuleResult(
        'R08.3', 'RANGE-SELECTOR-ISOLATION',
        'The range expressions of for/some/every are evaluated with the focus of the binding '
        'expression: in XPathContext.iter_product (the cartesian-product iterator they share) '
        'every call of a selector receives a fresh `copy(self)`, never `self` — the generators '
        'are consumed interleaved, and a suspended generator leaves its focus on the context it '
        'was given. Every binding expression that calls iter_product evaluates its body on a '
        'copy of the context as well.')
    cls = model.find_class('XPathContext')
    f = cls.methods.get('iter_product')
    if f is None:
        raise AnalysisError('XPathContext.iter_product vanished')
    sel = f.params()[1]
    calls = []
    # nested closures of iter_product see the same `self` and `selectors`
    shadow = any(isinstance(d, (ast.FunctionDef, ast.Lambda)) and d is not f.node and
                 any(a.arg in ('self', sel) for a in d.args.args) for d in ast.walk(f.node))
    for n in (walk_local(f.node) if shadow else ast.walk(f.node)):
        if isinstance(n, ast.Call) and n.args and not n.keywords:
            fn = n.func
            # x(ARG) with x iterating `selectors`, or selectors[k](ARG)
            if isinstance(fn, ast.Subscript) and dotted(fn.value) == sel:
                calls.append(n)
            elif isinstance(fn, ast.Name):
                for comp in walk_local(f.node):
                    if isinstance(comp, (ast.ListComp, ast.GeneratorExp)) and any(
                            isinstance(g.target, ast.Name) and g.target.id == fn.id
                            and dotted(g.iter) == sel for g in comp.generators) and any(
                            x is n for x in ast.walk(comp)):
                        calls.append(n)
                for loop in walk_local(f.node):
                    if isinstance(loop, ast.For) and isinstance(loop.target, ast.Name) and \
                            loop.target.id == fn.id and dotted(loop.iter) == sel and any(
                            x is n for x in ast.walk(loop)):
                        calls.append(n)
    nested = [d for d in ast.walk(f.node) if isinstance(d, ast.FunctionDef) and d is not f.node
              and any(x is c for c in calls for x in ast.walk(d))]
    if len(calls) < (1 if nested else 2):
        raise AnalysisError(f'iter_product: {len(calls)} selector calls located (creation and '
                            f're-creation expected)')
    for c in calls:
        ok = _is_fresh_copy(c.args[0], 'self')
        res.instances.append(f'{f.key}: {stmt_text(c)} fresh copy={ok}')
        if ok:
            res.ok()
        else:
            res.fail(finding('R08.3', f, c, f'{stmt_text(c)[:40]}',
                             f'`{stmt_text(c)[:50]}` runs a range selector on `{stmt_text(c.args[0])}`'
                             f', the context object shared by all ranges and by the body: with '
                             f'two b children (1, 3), `for $x in b, $y in b return $x + $y` '
                             f'gives (2, 6) and `some $x in b satisfies count(b) = 2` is false'))
    # callers: the body (last operand) is evaluated on a copy
    n_callers = 0
    for g in model.all_functions():
        uses = [n for n in walk_local(g.node) if isinstance(n, ast.Call)
                and isinstance(n.func, ast.Attribute) and n.func.attr == 'iter_product']
        if not uses or g is f:
            continue
        n_callers += 1
        body_calls = [n for n in walk_local(g.node) if isinstance(n, ast.Call)
                      and isinstance(n.func, ast.Attribute) and n.func.attr in ('select', 'evaluate')
                      and isinstance(n.func.value, ast.Subscript)
                      and stmt_text(n.func.value) == 'self[-1]']
        if not body_calls:
            raise AnalysisError(f'{g.key}: body evaluation self[-1].select/evaluate not located')
        for b in body_calls:
            ok = bool(b.args) and _is_fresh_copy(b.args[0], 'context')
            res.instances.append(f'{g.key}: {stmt_text(b)} on a copy={ok}')
            if ok:
                res.ok()
            else:
                res.fail(finding('R08.3', g, b, f'body {stmt_text(b)[:40]}',
                                 f'`{stmt_text(b)[:50]}` evaluates the body of the binding '
                                 f'expression on the context that carries the bindings: a focus '
                                 f'change inside the body leaks into the next iteration'))
    counts['iter_product_callers'] = n_callers
    if n_callers < 2:
        raise AnalysisError(f'only {n_callers} callers of iter_product located')
    return res


def r08_4(ctx, counts) -> RuleResult:
    model = ctx.model
    reg = ctx.reg
    res = RuleResult(
        'R08.4', 'OPERAND-ISOLATION-SIBLINGS',
        'For every token that has both an evaluate and a select implementation: an operand '
        '(self[i], or each `op` of `for op in self`) that one of the two evaluates on a fresh '
        '`copy(context)` is evaluated on a copy by the other too. Instances: the comma operator '
        '(XPath 3.0+ reaches its evaluate for parenthesized sequences) and the condition of '
        '`if`.')
    seen = set()
    n = 0
    for rec in reg.all_records():
        ev, se = rec.method('evaluate'), rec.method('select')
        if ev is None or se is None or ev.origin == 'class' or se.origin == 'class':
            continue
        if (ev.func.key, se.func.key) in seen:
            continue
        seen.add((ev.func.key, se.func.key))

        def operand_forms(fn) -> dict[str, set[bool]]:
            """operand key ('*' for `for op in self`, or the literal index) -> isolation forms"""
            out: dict[str, set[bool]] = {}
            loop_vars = {loop.target.id for loop in walk_local(fn.node)
                         if isinstance(loop, ast.For) and dotted(loop.iter) == 'self'
                         and isinstance(loop.target, ast.Name)}
            for c in walk_local(fn.node):
                if not (isinstance(c, ast.Call) and isinstance(c.func, ast.Attribute)
                        and c.func.attr in ('select', 'evaluate') and c.args):
                    continue
                recv = c.func.value
                key = None
                if isinstance(recv, ast.Name) and recv.id in loop_vars:
                    key = '*'
                elif isinstance(recv, ast.Subscript) and dotted(recv.value) == 'self' and \
                        isinstance(recv.slice, ast.Constant):
                    key = str(recv.slice.value)
                if key is None:
                    continue
                # only the first evaluation of an operand matters for isolation from the others
                out.setdefault(key, set()).add(_is_fresh_copy(c.args[0], 'context'))
            return out
        a, b = operand_forms(ev.func), operand_forms(se.func)
        common = sorted(k for k in set(a) & set(b) if True in a[k] or True in b[k])
        if not common:
            continue
        n += 1
        for k in common:
            res.instances.append(f'{rec.symbol!r} operand {k}: {ev.func.name} isolates={sorted(a[k])}, '
                                 f'{se.func.name} isolates={sorted(b[k])}')
            if a[k] == b[k]:
                res.ok()
            else:
                lag = ev.func if (True in b[k] and a[k] != b[k] and False in a[k]) else se.func
                res.fail(finding('R08.4', lag, lag.node, f'{rec.symbol} operand {k}',
                                 f'{lag.name} evaluates operand {k} of {rec.symbol!r} on the shared '
                                 f'context while its sibling gives it a copy: a focus change in '
                                 f'that operand (or a generator left suspended by an early exit '
                                 f'of boolean_value) leaks into the operands evaluated next'))
    counts['operand_loop_pairs'] = n
    if n < 1:
        raise AnalysisError('no evaluate/select pair iterating over its operands located')
    return res


def r08_5(ctx, counts) -> RuleResult:
    """filter predicates: the predicate is evaluated for every item, on a copy of its focus"""
    from ..engine.cfg import CFG
    model = ctx.model
    reg = ctx.reg
    res = RuleResult(
        'R08.5', 'PREDICATE-PER-ITEM',
        'In the select method bound to the predicate operator "[": inside the loop over '
        'select_with_focus every path from the loop header to a yield passes through the '
        'evaluation of the predicate operand self[1] (so E[count(y)], E[position()] or '
        'E[number(@n)] are re-evaluated for each item — no value is carried over from an earlier '
        'item), and that evaluation receives copy(context) (the predicate cannot move the focus '
        'of the item being filtered).')
    funcs = set()
    for pz in reg.PARSERS:
        rec = reg.tables[pz].get('[')
        if rec is not None:
            ref = rec.method('select')
            if ref is not None and ref.func is not None and ref.origin != 'class':
                funcs.add(ref.func)
    n = 0
    for f in sorted(funcs, key=lambda q: q.key):
        loops = [x for x in walk_local(f.node) if isinstance(x, ast.For)
                 and 'select_with_focus' in stmt_text(x.iter)]
        if not loops:
            continue            # e.g. the array/map lookup form of '[' in 3.1
        cfg = CFG(f.node)
        for loop in loops:
            head = [nd for nd in cfg.nodes if nd.ast is loop and nd.kind == 'for']
            evals = []
            for nd in cfg.nodes:
                if nd.ast is None or nd.kind not in ('stmt', 'test'):
                    continue
                root = nd.ast.test if isinstance(nd.ast, (ast.If, ast.While)) else nd.ast
                for c in ast.walk(root):
                    if isinstance(c, ast.Call) and isinstance(c.func, ast.Attribute) and \
                            c.func.attr in ('select', 'evaluate', 'select_results') and \
                            stmt_text(c.func.value) == 'self[1]' and \
                            any(x is nd.ast for b in loop.body for x in ast.walk(b)):
                        evals.append((nd, c))
            if not head or not evals:
                raise AnalysisError(f'{f.key}: predicate loop / evaluation of self[1] not located')
            for nd, c in evals:
                iso = bool(c.args) and isinstance(c.args[0], ast.Call) and \
                    dotted(c.args[0].func) in ('copy', 'copy.copy')
                res.instances.append(f'{f.key}: {stmt_text(c)[:50]} on a copy={iso}')
                if iso:
                    res.ok()
                else:
                    res.fail(finding('R08.5', f, c, 'predicate on shared focus',
                                     f'`{stmt_text(c)[:50]}` evaluates the predicate on the '
                                     f'context of the focus loop itself'))
            ys = [nd for nd in cfg.nodes if nd.ast is not None and nd.kind == 'stmt' and any(
                isinstance(x, (ast.Yield, ast.YieldFrom)) for x in ast.walk(nd.ast))
                and any(x is nd.ast for b in loop.body for x in ast.walk(b))]
            enodes = [nd for nd, _ in evals]
            for y in ys:
                n += 1
                path = cfg.path_avoiding(head, lambda q, y=y: q is y, lambda q: q in enodes)
                res.instances.append(f'{f.key}: {stmt_text(y.ast)[:40]} after the predicate '
                                     f'evaluation of the same item: {path is None}')
                if path is None:
                    res.ok()
                else:
                    res.fail(finding('R08.5', f, y.ast, 'yield bypasses predicate evaluation',
                                     f'`{stmt_text(y.ast)[:40]}` is reachable from the loop header '
                                     f'without evaluating the predicate for the current item '
                                     f'({cfg.fmt_path(path)[:160]}): a value computed for an '
                                     f'earlier item decides, so /r/x[count(y)] filters every x '
                                     f'with the count of the first one'))
    counts['predicate_yields'] = n
    if n < 1:
        raise AnalysisError(f'only {n} yields located in the predicate loop')
    return res

def r08_8(ctx, counts, symbols=('subsequence',), rid='R08.8') -> RuleResult:
    """the end bound start + length is formed from the unclamped operands"""
    res = RuleResult(
        rid, 'END-BOUND-FROM-UNCLAMPED-OPERANDS',
        'fn:subsequence and fn:substring select the positions p with round(start) <= p < '
        'round(start) + round(length): the start may lie before the first position and the '
        'excess is taken from the length (subsequence($s, 0, 2) is one item). In the functions '
        'bound to them, an addition that has an operand derived from the start argument '
        '(get_argument index 1) and one derived from the length argument (index 2) therefore '
        'uses the start without a lower clamp (no max(..) on its definition chain) and the '
        'length without an upper clamp (no min(..)): clamping either BEFORE the sum moves the end '
        '(start = max(start - 1, 0); islice(.., start, start + length)). Clamps applied to the '
        'sum, or to the start where it is used alone as a slice bound, are the correct forms.')
    bound = bound_symbols(ctx.reg)
    funcs = sorted((f for f, sy in bound.items() if set(sy) & set(symbols)), key=lambda q: q.key)
    if not funcs:
        raise AnalysisError(f'{rid}: no function bound to {symbols}')
    n = 0
    for f in funcs:
        defs: dict[str, list[ast.expr]] = {}
        for x in walk_local(f.node):
            if isinstance(x, (ast.Assign, ast.AnnAssign)) and x.value is not None:
                for t in (x.targets if isinstance(x, ast.Assign) else [x.target]):
                    if isinstance(t, ast.Name):
                        defs.setdefault(t.id, []).append(x.value)

        def arg_index(c: ast.AST):
            if isinstance(c, ast.Call) and dotted(c.func).split('.')[-1] == 'get_argument':
                for k in c.keywords:
                    if k.arg == 'index' and isinstance(k.value, ast.Constant):
                        return k.value.value
                if len(c.args) > 1 and isinstance(c.args[1], ast.Constant):
                    return c.args[1].value
            return None

        def chain(e: ast.expr, depth: int = 0, seen=None) -> tuple[set[int], set[str]]:
            """(argument indexes the expression derives from, clamp calls on the way)"""
            seen = set() if seen is None else seen
            idx: set[int] = set()
            clamps: set[str] = set()
            for y in ast.walk(e):
                i = arg_index(y)
                if i is not None:
                    idx.add(i)
                if isinstance(y, ast.Call) and dotted(y.func) in ('max', 'min'):
                    clamps.add(dotted(y.func))
                if isinstance(y, ast.Name) and y.id in defs and y.id not in seen and depth < 6:
                    seen.add(y.id)
                    for d in defs[y.id]:
                        i2, c2 = chain(d, depth + 1, seen)
                        idx |= i2
                        clamps |= c2
            return idx, clamps
        for x in walk_local(f.node):
            if not (isinstance(x, ast.BinOp) and isinstance(x.op, ast.Add)):
                continue
            li, lc = chain(x.left)
            ri, rc = chain(x.right)
            pairs = []
            if 1 in li and 2 in ri and 2 not in li and 1 not in ri:
                pairs = [(lc, rc)]
            elif 2 in li and 1 in ri and 1 not in li and 2 not in ri:
                pairs = [(rc, lc)]
            for sc, lenc in pairs:
                n += 1
                bad = ('max' in sc, 'min' in lenc)
                res.instances.append(f'{f.key}: L{x.lineno} `{stmt_text(x)[:50]}` start clamped '
                                     f'from below={bad[0]} length clamped from above={bad[1]}')
                if not any(bad):
                    res.ok()
                else:
                    res.fail(finding(rid, f, x, f'end bound {stmt_text(x)[:30]}',
                                     f'`{stmt_text(x)[:60]}` adds the length to a start that '
                                     f'was already clamped (or a clamped length to the start): '
                                     f'the positions before the first one no longer consume '
                                     f'the length, subsequence((10,20,30), 0, 2) gives two '
                                     f'items and substring("12345", -3, 7) one character'))
    counts[f'{rid}_end_bound_sums'] = n
    if n < 1:
        raise AnalysisError(f'{rid}: no start + length sum located in {[f.key for f in funcs]}')
    return res


def run(ctx) -> dict:
    model = ctx.model
    counts: dict[str, int] = {}
    r1 = RuleResult(
        'R08.1', 'FOCUS-NUMBERING',
        'XPathToken.select_with_focus (the focus that filter predicates, position() and last() '
        'observe) materialises its operand, sets context.size to the length of that list and '
        'numbers the items 1..n in order (enumerate(results, start=1) or an equivalent '
        'recognised idiom); the outer focus (item, size, position, axis) is saved before and '
        'restored on the normal exit, each attribute from its own saved value (R01.1 applied to '
        'this function).')
    base = model.find_class('XPathToken').methods.get('select_with_focus')
    if base is None:
        raise AnalysisError('XPathToken.select_with_focus vanished')
    d, s, node = numbering(base, base.node.body, base.params()[1])
    r1.instances.append(f'{base.key}: numbering={d} size={s}')
    r1.samples.append({'rule': 'R08.1', 'numbering': d, 'size': s})
    if d.startswith('unknown'):
        raise AnalysisError(f'select_with_focus numbering idiom not recognised: {d}')
    if d == 'asc1':
        r1.ok()
    else:
        r1.fail(finding('R08.1', base, node, 'numbering',
                        f'the inner focus must be numbered 1..n but is {d}: E[n] and '
                        f'position() are off'))
    if s == 'ok':
        r1.ok()
    else:
        r1.fail(finding('R08.1', base, node, 'size',
                        f'context.size is {s}: last() does not return the sequence length'))
    mat = [n for n in flat_body(base.node.body) if isinstance(n, ast.Assign)
           and 'self.select' in stmt_text(n.value)
           and (isinstance(n.value, ast.ListComp) or
                (isinstance(n.value, ast.Call) and dotted(n.value.func) in ('list', 'xlist')))]
    if mat:
        r1.ok()
    else:
        r1.fail(finding('R08.1', base, base.node, 'materialise',
                        'the operand is no longer materialised before numbering: last() cannot '
                        'be known while iterating'))
    # the focus is saved before and restored (attribute by attribute, same order) after
    focus_frame(base, base.params()[1], r1)
    counts['select_with_focus'] = 1

    r2 = RuleResult(
        'R08.2', 'SUBSEQUENCE-ROUND',
        'In the function bound to fn:subsequence every positional argument (get_argument with '
        'index >= 1) is passed through the half-up helper round_number and the builtin round() '
        'does not occur.')
    half_up_helper(model)
    bound = bound_symbols(ctx.reg)
    fs = [f for f, s_ in bound.items() if 'subsequence' in s_]
    if len(fs) != 1:
        raise AnalysisError(f'fn:subsequence: expected one implementation, found {len(fs)}')
    for f, call in builtin_round_sites(model):
        if f is fs[0]:
            r2.fail(finding('R08.2', f, call, 'round()',
                            'fn:subsequence uses the builtin half-to-even round()'))
    positional_args_rounded(fs[0], r2, 'R08.2', 'subsequence', 'round_number')
    counts['subsequence_impl'] = len(fs)
    from .c05_purity import r05_3
    r6 = r05_3(ctx, counts)
    r6.title = 'OPERAND-IMMUTABLE (R08.6 = R05.3: sequence functions build new sequences)'
    from .c01_paths import r01_5
    r7 = r01_5(ctx, counts)
    r7.title = ('PREDICATE-AXIS-DIRECTION (R08.7 = R01.5: a filter takes its results from the '
                'focus iteration and examines every item)')
    return {
        'results': [r1, r2, r08_3(ctx, counts), r08_4(ctx, counts), r08_5(ctx, counts), r6, r7, r08_8(ctx, counts)],
        'counts': counts,
        'explanation':
            'Two thin structural clauses of C08 are decided: the focus numbering that '
            'predicates, position() and last() observe (materialised list, size = len, '
            'positions 1..n), half-up rounding of the position arguments of fn:subsequence, and '
            'focus isolation of the operands of the binding expressions (for/some/every) and of '
            'the comma operator.',
        'not_decided':
            'Every list-model equation of the property (count/head/tail/reverse/insert-before/'
            'remove/index-of/distinct-values/sum/avg/min/max/string-join, quantifier '
            'equivalences): statements over values.',
        'assumptions': ['helpers.round_number is the half-up helper (shape re-checked)'],
    }
