"""
C20 — schema-aware evaluation: the prototype-table clause only.

With a schema, the typed value of a node is built by `decoder.get_atomic_sequence`, which
looks the declared (root) type up in `_ATOMIC_VALUES[xsd_version]` and instantiates the
*class of the prototype value* found there (`value.__class__(text)` / `value.fromstring`).
So "the typed value is an instance of the datatype class of its declared type" has a
table-shaped necessary condition:

R20.1 PROTOTYPE-TABLE   for every entry `{XSD}N -> prototype`, the class of the prototype is
                        the datatype class whose `name` is N (the builtin Python type the
                        registry uses for boolean/decimal/double/string; UntypedAtomic for the
                        ur-types), and where a class exists in an XSD 1.0 and an XSD 1.1
                        variant the '1.0' table uses the 1.0 class and the '1.1' table the other
R20.2 PROTOTYPE-COVERAGE every atomic datatype class that carries a `name` has an entry

Nothing else of C20 is decided (it depends on the external schema processor).
"""
from __future__ import annotations

import ast
from typing import Optional

from ..engine.srcmodel import AnalysisError, ClassInfo, Model, dotted, stmt_text
from ..engine.report import RuleResult, Finding
from .common import finding

BUILTIN_PROTOTYPES = {'boolean': 'bool', 'decimal': 'Decimal', 'double': 'float', 'string': 'str'}
UR_TYPES = {'untypedAtomic', 'anyType', 'anySimpleType', 'anyAtomicType'}


def class_name_attr(model: Model, c: ClassInfo) -> Optional[str]:
    got = c.find_attr('name')
    if got is None:
        return None
    owner, expr = got
    v = model.try_fold(owner.module, expr)
    return v if isinstance(v, str) else None


def class_xsd_version(model: Model, c: ClassInfo) -> Optional[str]:
    got = c.find_attr('_xsd_version') or c.find_attr('xsd_version')
    if got is None:
        return None
    owner, expr = got
    v = model.try_fold(owner.module, expr)
    return v if isinstance(v, str) else None


def prototype_class(model: Model, mod, v: ast.expr):
    """('class', ClassInfo) | ('builtin', name) | None"""
    if isinstance(v, ast.Constant):
        return ('builtin', type(v.value).__name__)
    if isinstance(v, ast.Call):
        f = v.func
        if isinstance(f, ast.Attribute) and f.attr in ('fromstring', 'make'):
            f = f.value
        if isinstance(f, (ast.Name, ast.Attribute)):
            kind, val = model.resolve_expr(mod, f)
            if kind == 'class':
                return ('class', val)
            d = dotted(f)
            if d in ('float', 'str', 'bool', 'int', 'Decimal', 'decimal.Decimal'):
                return ('builtin', d.split('.')[-1])
    return None


def tables(model: Model):
    mod = model.module('elementpath.decoder')
    base = mod.assigns.get('_ATOMIC_VALUES')
    if not (isinstance(base, ast.Dict) and len(base.keys) == 1 and
            isinstance(base.values[0], ast.Dict)):
        raise AnalysisError('decoder._ATOMIC_VALUES is not {"1.0": {…}}')
    v0 = model.try_fold(mod, base.keys[0])
    out = {v0: dict()}
    for k, v in zip(base.values[0].keys, base.values[0].values):
        key = model.try_fold(mod, k)
        if not isinstance(key, str) or '}' not in key:
            raise AnalysisError(f'decoder._ATOMIC_VALUES: key {stmt_text(k)} not foldable')
        out[v0][key.split('}')[1]] = v
    # _ATOMIC_VALUES['1.1'] = {**_ATOMIC_VALUES['1.0'], …}
    for st in mod.tree.body:
        if isinstance(st, ast.Assign) and isinstance(st.targets[0], ast.Subscript) and \
                dotted(st.targets[0].value) == '_ATOMIC_VALUES' and isinstance(st.value, ast.Dict):
            ver = model.try_fold(mod, st.targets[0].slice)
            tab: dict = {}
            for k, v in zip(st.value.keys, st.value.values):
                if k is None:          # **spread
                    if isinstance(v, ast.Subscript) and dotted(v.value) == '_ATOMIC_VALUES':
                        src = model.try_fold(mod, v.slice)
                        tab.update(out.get(src, {}))
                    else:
                        raise AnalysisError('decoder: unrecognised ** spread in the 1.1 table')
                else:
                    key = model.try_fold(mod, k)
                    if not isinstance(key, str) or '}' not in key:
                        raise AnalysisError('decoder: 1.1 table key not foldable')
                    tab[key.split('}')[1]] = v
            out[ver] = tab
    lists = mod.assigns.get('_LIST_VALUES')
    list_names = set()
    if isinstance(lists, ast.Dict):
        for k in lists.keys:
            key = model.try_fold(mod, k)
            if isinstance(key, str) and '}' in key:
                list_names.add(key.split('}')[1])
    return mod, out, list_names


def r20_3(ctx, counts) -> RuleResult:
    from ..engine.cfg import CFG
    from ..engine.dataflow import branch_facts
    from ..engine.srcmodel import walk_local
    model: Model = ctx.model
    res = RuleResult(
        'R20.3', 'VALIDITY-CACHE-MONOTONE',
        'AbstractSchemaProxy.is_fully_valid may remember a positive answer only: a schema that '
        'was not fully valid when first asked becomes valid once it is built, so on every path '
        'to a return that does not pass the recomputation (the assignment of the cached '
        'attribute from the validity expression) the branch facts establish that the cached '
        'attribute is truthy. A cached False would keep every node untyped for the life of the '
        'proxy.')
    cls = model.find_class('AbstractSchemaProxy')
    f = cls.methods.get('is_fully_valid')
    if f is None:
        raise AnalysisError('AbstractSchemaProxy.is_fully_valid vanished')
    cfg = CFG(f.node)
    facts = branch_facts(cfg)
    recompute = [nd for nd in cfg.nodes if nd.kind == 'stmt' and isinstance(nd.ast, (ast.Assign, ast.AnnAssign))
                 and any(dotted(t).startswith('self._') for t in (
                     nd.ast.targets if isinstance(nd.ast, ast.Assign) else [nd.ast.target]))
                 and 'valid' in stmt_text(nd.ast.value or ast.Constant(''))]
    if not recompute:
        raise AnalysisError('is_fully_valid: recomputation assignment not located')
    attr = dotted(recompute[0].ast.targets[0] if isinstance(recompute[0].ast, ast.Assign)
                  else recompute[0].ast.target)
    n = 0
    for nd in cfg.nodes:
        if nd.kind != 'stmt' or not isinstance(nd.ast, ast.Return):
            continue
        n += 1
        fresh = cfg.path_avoiding([cfg.entry], lambda q, nd=nd: q is nd,
                                  lambda q: q in recompute) is None
        truthy = f'+{attr}' in facts[nd.id] or f'+{attr} is True' in facts[nd.id]
        res.instances.append(f'{f.key}: `{stmt_text(nd.ast)}` recomputed={fresh} '
                             f'cached-and-truthy={truthy}')
        if fresh or truthy:
            res.ok()
        else:
            res.fail(finding('R20.3', f, nd.ast, 'cached negative answer',
                             f'`{stmt_text(nd.ast)}` can return the cached `{attr}` without '
                             f'recomputing it and without knowing that it is true: a proxy asked '
                             f'once before schema.build() answers "not fully valid" for ever and '
                             f'no node gets a type'))
    counts['validity_returns'] = n
    return res


def run(ctx) -> dict:
    model: Model = ctx.model
    counts: dict[str, int] = {}
    r1 = RuleResult(
        'R20.1', 'PROTOTYPE-TABLE',
        'For every entry `{XSD}N -> prototype` of decoder._ATOMIC_VALUES (both XSD versions, the '
        '1.1 table expanded from its ** spread): the class instantiated by the prototype '
        'expression is the datatype class whose `name` attribute is N; boolean/decimal/double/'
        'string use the Python builtin the type registry uses; the ur-types use UntypedAtomic; '
        'a class that declares a class-level xsd_version (Date10/Date, DateTime10/DateTime, …) '
        'appears in the table of that version.')
    r2 = RuleResult(
        'R20.2', 'PROTOTYPE-COVERAGE',
        'Every concrete atomic datatype class of elementpath.datatypes with a `name` attribute '
        '(the registry C10 checks) has a prototype entry in each version\'s table, or is a list '
        'type in _LIST_VALUES, or is declared abstract/union below.')
    mod, tabs, list_names = tables(model)
    if set(tabs) != {'1.0', '1.1'}:
        raise AnalysisError(f'decoder tables located for versions {sorted(tabs)}')
    any_atomic = model.find_class('AnyAtomicType')
    n = 0
    for ver, tab in sorted(tabs.items()):
        for name, v in sorted(tab.items()):
            n += 1
            pc = prototype_class(model, mod, v)
            label = f'[{ver}] {name} -> {stmt_text(v)[:40]}'
            if pc is None:
                raise AnalysisError(f'decoder table: prototype of {name} not resolved '
                                    f'({stmt_text(v)[:50]})')
            ok = False
            why = ''
            if name in UR_TYPES:
                ok = pc[0] == 'class' and pc[1].name == 'UntypedAtomic'
                why = 'ur-types decode to UntypedAtomic'
            elif name in BUILTIN_PROTOTYPES and pc[0] == 'builtin':
                ok = pc[1] == BUILTIN_PROTOTYPES[name]
                why = f'{name} is represented by the builtin {BUILTIN_PROTOTYPES[name]}'
            elif pc[0] == 'class':
                c: ClassInfo = pc[1]
                cname = class_name_attr(model, c)
                ok = cname == name
                why = f'class {c.name} has name={cname!r}'
                if ok:
                    cver = class_xsd_version(model, c)
                    if cver is not None and cver != ver:
                        ok = False
                        why = (f'class {c.name} declares xsd_version={cver!r} but the entry is '
                               f'in the {ver} table')
                    elif cver is not None:
                        why += f', xsd_version={cver!r}'
            else:
                why = f'prototype is the builtin {pc[1]}'
            r1.instances.append(f'{label}: {why}')
            if ok:
                r1.ok()
            else:
                r1.fail(Finding('R20.1', mod.relpath, '<module>', f'[{ver}] {name}',
                                f'decoder._ATOMIC_VALUES[{ver!r}]: the prototype of xs:{name} is '
                                f'`{stmt_text(v)[:50]}` ({why}); nodes declared xs:{name} get a '
                                f'typed value of another datatype class', v.lineno))
    counts['prototype_entries'] = n
    if n < 80:
        raise AnalysisError(f'only {n} prototype entries located')
    # coverage
    named: dict[str, list[str]] = {}
    for c in model.all_classes():
        if not c.module.name.startswith('elementpath.datatypes'):
            continue
        if 'name' in c.attrs and c.is_subclass_of(any_atomic):
            v = model.try_fold(c.module, c.attrs['name'])
            if isinstance(v, str):
                named.setdefault(v, []).append(c.name)
    abstract_or_union = {'numeric', 'anyAtomicType', 'error'}
    for name, classes in sorted(named.items()):
        r2.instances.append(f'xs:{name} ({"/".join(classes)})')
        if name in abstract_or_union or name in list_names:
            r2.ok()
            continue
        missing = [v for v, tab in tabs.items() if name not in tab
                   and not (name == 'dateTimeStamp' and v == '1.0')]
        if missing:
            r2.fail(Finding('R20.2', mod.relpath, '<module>', f'no prototype for {name}',
                            f'datatype xs:{name} ({"/".join(classes)}) has no prototype in '
                            f'decoder._ATOMIC_VALUES[{"/".join(missing)}]: nodes of that type '
                            f'fall back to the schema processor\'s decode or to untypedAtomic'))
        else:
            r2.ok()
    counts['named_atomic_types'] = len(named)
    # typed values are a function of (node, schema): the decoder and the node classes keep no
    # process-wide state beyond the reviewed inventory (no cross-evaluation caches)
    from .c19_global import r19_5 as _r19_5
    _state = _r19_5(ctx, counts, lambda f: f.module.name in (
        'elementpath.decoder', 'elementpath.schema_proxy', 'elementpath.xpath_nodes',
        'elementpath.xpath_context'), 0)
    return {
        'results': [r1, r2, r20_3(ctx, counts), _state], 'counts': counts,
        'explanation':
            'Only the table-shaped necessary condition of "the typed value is an instance of the '
            'datatype class of its declared type" is decided: the prototype table that '
            'get_atomic_sequence instantiates from maps every XSD builtin name to the datatype '
            'class of that name, per XSD version, and covers every named atomic datatype.',
        'not_decided':
            'Equality with the schema processor\'s decoding, instance-of for base types, typed '
            'arithmetic, and "a schema never changes node selection" depend on the external '
            'schema processor (xmlschema) and on extensional equality of branches; not decided.',
        'assumptions': ['decode() instantiates value.__class__/value.fromstring (re-read: the '
                        'rule fails with ANALYSIS-ERROR if get_atomic_sequence no longer does)'],
    }
