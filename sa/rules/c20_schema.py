"""
C20 — schema-aware evaluation: the prototype-table clause only.

With a schema, the typed value of a node is built by `decoder.get_atomic_sequence`, which
looks the declared (root) type up in `_ATOMIC_VALUES[xsd_version]` and instantiates the
*class of the prototype value* found there (`value.__class__(text)` / `value.fromstring`).
So "the typed value is an instance of the datatype class of its declared type" has a
table-shaped necessary condition:

R20.1 PROTOTYPE-TABLE   for every entry `{XSD}N -> prototype`, the class of the prototype is
                        the datatype class whose `name` is N (the builtin Python type the
                        registry uses for boolean/decimal/double/string; UntypedAtomic for the
                        ur-types), and where a class exists in an XSD 1.0 and an XSD 1.1
                        variant the '1.0' table uses the 1.0 class and the '1.1' table the other
R20.2 PROTOTYPE-COVERAGE every atomic datatype class that carries a `name` has an entry

Nothing else of C20 is decided (it depends on the external schema processor).
"""
from __future__ import annotations

import ast
from typing import Optional

from ..engine.srcmodel import AnalysisError, ClassInfo, Model, dotted, stmt_text, walk_local
from ..engine.report import RuleResult, Finding
from .common import finding

BUILTIN_PROTOTYPES = {'boolean': 'bool', 'decimal': 'Decimal', 'double': 'float', 'string': 'str'}
UR_TYPES = {'untypedAtomic', 'anyType', 'anySimpleType', 'anyAtomicType'}


def class_name_attr(model: Model, c: ClassInfo) -> Optional[str]:
    got = c.find_attr('name')
    if got is None:
        return None
    owner, expr = got
    v = model.try_fold(owner.module, expr)
    return v if isinstance(v, str) else None


def class_xsd_version(model: Model, c: ClassInfo) -> Optional[str]:
    got = c.find_attr('_xsd_version') or c.find_attr('xsd_version')
    if got is None:
        return None
    owner, expr = got
    v = model.try_fold(owner.module, expr)
    return v if isinstance(v, str) else None


def prototype_class(model: Model, mod, v: ast.expr):
    """('class', ClassInfo) | ('builtin', name) | None"""
    if isinstance(v, ast.Constant):
        return ('builtin', type(v.value).__name__)
    if isinstance(v, ast.Call):
        f = v.func
        if isinstance(f, ast.Attribute) and f.attr in ('fromstring', 'make'):
            f = f.value
        if isinstance(f, (ast.Name, ast.Attribute)):
            kind, val = model.resolve_expr(mod, f)
            if kind == 'class':
                return ('class', val)
            d = dotted(f)
            if d in ('float', 'str', 'bool', 'int', 'Decimal', 'decimal.Decimal'):
                return ('builtin', d.split('.')[-1])
    return None


def tables(model: Model):
    mod = model.module('elementpath.decoder')
    base = mod.assigns.get('_ATOMIC_VALUES')
    if not (isinstance(base, ast.Dict) and len(base.keys) == 1 and
            isinstance(base.values[0], ast.Dict)):
        raise AnalysisError('decoder._ATOMIC_VALUES is not {"1.0": {…}}')
    v0 = model.try_fold(mod, base.keys[0])
    out = {v0: dict()}
    for k, v in zip(base.values[0].keys, base.values[0].values):
        key = model.try_fold(mod, k)
        if not isinstance(key, str) or '}' not in key:
            raise AnalysisError(f'decoder._ATOMIC_VALUES: key {stmt_text(k)} not foldable')
        out[v0][key.split('}')[1]] = v
    # _ATOMIC_VALUES['1.1'] = {**_ATOMIC_VALUES['1.0'], …}
    for st in mod.tree.body:
        if isinstance(st, ast.Assign) and isinstance(st.targets[0], ast.Subscript) and \
                dotted(st.targets[0].value) == '_ATOMIC_VALUES' and isinstance(st.value, ast.Dict):
            ver = model.try_fold(mod, st.targets[0].slice)
            tab: dict = {}
            for k, v in zip(st.value.keys, st.value.values):
                if k is None:          # **spread
                    if isinstance(v, ast.Subscript) and dotted(v.value) == '_ATOMIC_VALUES':
                        src = model.try_fold(mod, v.slice)
                        tab.update(out.get(src, {}))
                    else:
                        raise AnalysisError('decoder: unrecognised ** spread in the 1.1 table')
                else:
                    key = model.try_fold(mod, k)
                    if not isinstance(key, str) or '}' not in key:
                        raise AnalysisError('decoder: 1.1 table key not foldable')
                    tab[key.split('}')[1]] = v
            out[ver] = tab
    lists = mod.assigns.get('_LIST_VALUES')
    list_names = set()
    if isinstance(lists, ast.Dict):
        for k in lists.keys:
            key = model.try_fold(mod, k)
            if isinstance(key, str) and '}' in key:
                list_names.add(key.split('}')[1])
    return mod, out, list_names


def r20_3(ctx, counts) -> RuleResult:
    from ..engine.cfg import CFG
    from ..engine.dataflow import branch_facts
    from ..engine.srcmodel import walk_local
    model: Model = ctx.model
    res = RuleResult(
        'R20.3', 'VALIDITY-CACHE-MONOTONE',
        'AbstractSchemaProxy.is_fully_valid may remember a positive answer only: a schema that '
        'was not fully valid when first asked becomes valid once it is built, so on every path '
        'to a return that does not pass the recomputation (the assignment of the cached '
        'attribute from the validity expression) the branch facts establish that the cached '
        'attribute is truthy. A cached False would keep every node untyped for the life of the '
        'proxy.')
    cls = model.find_class('AbstractSchemaProxy')
    f = cls.methods.get('is_fully_valid')
    if f is None:
        raise AnalysisError('AbstractSchemaProxy.is_fully_valid vanished')
    cfg = CFG(f.node)
    facts = branch_facts(cfg)
    recompute = [nd for nd in cfg.nodes if nd.kind == 'stmt' and isinstance(nd.ast, (ast.Assign, ast.AnnAssign))
                 and any(dotted(t).startswith('self._') for t in (
                     nd.ast.targets if isinstance(nd.ast, ast.Assign) else [nd.ast.target]))
                 and 'valid' in stmt_text(nd.ast.value or ast.Constant(''))]
    if not recompute:
        raise AnalysisError('is_fully_valid: recomputation assignment not located')
    attr = dotted(recompute[0].ast.targets[0] if isinstance(recompute[0].ast, ast.Assign)
                  else recompute[0].ast.target)
    n = 0
    for nd in cfg.nodes:
        if nd.kind != 'stmt' or not isinstance(nd.ast, ast.Return):
            continue
        n += 1
        fresh = cfg.path_avoiding([cfg.entry], lambda q, nd=nd: q is nd,
                                  lambda q: q in recompute) is None
        truthy = f'+{attr}' in facts[nd.id] or f'+{attr} is True' in facts[nd.id]
        res.instances.append(f'{f.key}: `{stmt_text(nd.ast)}` recomputed={fresh} '
                             f'cached-and-truthy={truthy}')
        if fresh or truthy:
            res.ok()
        else:
            res.fail(finding('R20.3', f, nd.ast, 'cached negative answer',
                             f'`{stmt_text(nd.ast)}` can return the cached `{attr}` without '
                             f'recomputing it and without knowing that it is true: a proxy asked '
                             f'once before schema.build() answers "not fully valid" for ever and '
                             f'no node gets a type'))
    counts['validity_returns'] = n
    return res


def r20_4(ctx, counts) -> RuleResult:
    """the class of a prototype, called with text, must be the lexical constructor"""
    from ..engine.srcmodel import walk_local
    model: Model = ctx.model
    res = RuleResult(
        'R20.4', 'PROTOTYPE-CLASS-IS-LEXICAL-CONSTRUCTOR',
        'decode() builds the typed value as `value.__class__(text)`. That is the XSD lexical '
        'mapping for the datatype classes of elementpath.datatypes and, up to lexical-space '
        'details, for int, float, Decimal and str — but not for bool: bool("false") and bool("0") '
        'are True. For every builtin Python class that occurs as the class of a prototype in '
        '_ATOMIC_VALUES and whose call on text is not a lexical mapping (bool), the decode '
        'function inside get_atomic_sequence has an isinstance(value, <that class>) branch that '
        'returns through a datatype class (BooleanProxy) before the generic '
        '`value.__class__(s)`.')
    mod, tabs, _lists = tables(model)
    builtin_classes: set[str] = set()
    for _v, tab in tabs.items():
        for _name, expr in tab.items():
            pc = prototype_class(model, mod, expr)
            if pc is not None and pc[0] == 'builtin':
                builtin_classes.add(pc[1])
    non_lexical = sorted(builtin_classes & {'bool'})
    res.instances.append(f'builtin prototype classes: {sorted(builtin_classes)}; not lexical '
                         f'constructors: {non_lexical}')
    gas = mod.toplevel_function('get_atomic_sequence')
    if gas is None:
        raise AnalysisError('decoder.get_atomic_sequence vanished')
    decode = [g for g in mod.functions.values() if g.parent is gas and g.name == 'decode']
    if not decode:
        raise AnalysisError('get_atomic_sequence.decode vanished')
    d = decode[0]
    generic = [c for c in walk_local(d.node) if isinstance(c, ast.Call)
               and isinstance(c.func, ast.Attribute) and c.func.attr == '__class__']
    if not generic:
        raise AnalysisError(f'{d.key}: the generic value.__class__(text) call was not located')
    n = 0
    for cls_name in non_lexical:
        n += 1
        branches = [st for st in walk_local(d.node) if isinstance(st, ast.If)
                    and any(isinstance(t, ast.Call) and dotted(t.func) == 'isinstance'
                            and len(t.args) == 2 and cls_name in stmt_text(t.args[1])
                            for t in ast.walk(st.test))
                    and st.lineno < min(g.lineno for g in generic)]
        ok = any(any(isinstance(r, ast.Return) and isinstance(r.value, ast.Call)
                     and '__class__' not in stmt_text(r.value) for r in ast.walk(b))
                 for b in branches)
        res.instances.append(f'{d.key}: prototypes of class {cls_name} are decoded by a lexical '
                             f'constructor before the generic call={ok}')
        if ok:
            res.ok()
        else:
            res.fail(finding('R20.4', d, generic[0], f'{cls_name}(text) is not the lexical mapping',
                             f'`{stmt_text(generic[0])[:40]}` is reached with a prototype of class '
                             f'{cls_name}: {cls_name}("false") is True, so every xs:boolean '
                             f'element or attribute with text false/0 has the typed value true '
                             f'under a schema (data(<b>false</b>) = true)'))
    if not non_lexical:
        res.ok()
    counts['non_lexical_prototype_classes'] = n
    return res


def r20_5(ctx, counts) -> RuleResult:
    """derived types decode as their nearest builtin base, not as the primitive root"""
    from ..engine.srcmodel import walk_local
    model: Model = ctx.model
    res = RuleResult(
        'R20.5', 'NEAREST-BUILTIN-BASE',
        'The typed value of a node whose type is derived from a builtin (a restriction of '
        'xs:integer, a list of xs:integer, a restriction of xs:token) is an instance of that '
        'builtin: `data(<m>5</m>) instance of xs:integer`. `xsd_type.root_type` is the PRIMITIVE '
        'ancestor (xs:decimal for every integer type, xs:string for every string type), so a '
        'prototype looked up by root_type alone loses the derived builtin. In '
        'decoder.iter_atomic_values every lookup through `root_type` is a fallback: the function '
        'also walks the derivation chain (`base_type`, and `item_type` for lists) and the '
        'root_type lookup sits in an else/after-failure position.')
    mod = model.module('elementpath.decoder')
    f = mod.toplevel_function('iter_atomic_values')
    if f is None:
        raise AnalysisError('decoder.iter_atomic_values vanished')
    nodes = list(ast.walk(f.node))
    roots = [x for x in nodes if isinstance(x, ast.Attribute) and x.attr == 'root_type']
    walks_base = any((isinstance(x, ast.Attribute) and x.attr == 'base_type') or
                     (isinstance(x, ast.Constant) and x.value == 'base_type') for x in nodes)
    walks_items = any((isinstance(x, ast.Attribute) and x.attr == 'item_type') or
                      (isinstance(x, ast.Constant) and x.value == 'item_type') for x in nodes)
    if not roots:
        res.instances.append(f'{f.key}: no root_type lookup')
        res.ok()
    # names bound from the derivation walk: x = _helper(…) where the helper reads base_type,
    # or x = getattr(…, 'item_type'/'base_type', …) / ….base_type
    helpers = {g.name for g in mod.functions.values() if g.parent is f and any(
        (isinstance(x, ast.Constant) and x.value == 'base_type') or
        (isinstance(x, ast.Attribute) and x.attr == 'base_type') for x in ast.walk(g.node))}
    walk_names: set[str] = set()
    for st in walk_local(f.node):
        if isinstance(st, (ast.Assign, ast.AnnAssign)) and getattr(st, 'value', None) is not None:
            v = st.value
            derived = any(isinstance(c, ast.Call) and dotted(c.func) in helpers for c in ast.walk(v)) \
                or any(isinstance(c, ast.Constant) and c.value in ('base_type', 'item_type')
                       for c in ast.walk(v)) \
                or any(isinstance(c, ast.Attribute) and c.attr in ('base_type', 'item_type')
                       for c in ast.walk(v))
            if derived:
                tg = st.targets[0] if isinstance(st, ast.Assign) else st.target
                if isinstance(tg, ast.Name):
                    walk_names.add(tg.id)
    from .common import enclosing_map
    emap = enclosing_map(f.node)
    for r in roots:
        if any(any(y is r for y in ast.walk(g.node)) for g in mod.functions.values()
               if g.parent is f):
            continue        # inside a nested helper (the member-type walk)
        fallback = False
        for enc in emap.get(id(r), []):
            if isinstance(enc, ast.If) and any(any(y is r for y in ast.walk(st)) for st in enc.orelse) \
                    and any(isinstance(x, ast.Name) and x.id in walk_names for x in ast.walk(enc.test)):
                fallback = True
        res.instances.append(f'{f.key}: root_type lookup at L{r.lineno}: fallback after the '
                             f'derivation walk ({sorted(walk_names)})={fallback}; list item type '
                             f'used={walks_items}')
        if fallback and walks_base and walks_items:
            res.ok()
        else:
            res.fail(Finding('R20.5', mod.relpath, f.qualname, 'prototype by root_type only',
                             f'{f.name} finds the prototype of a derived type through '
                             f'`root_type` (the primitive ancestor) without walking `base_type`'
                             f'{"" if walks_items else " / `item_type`"}: a restriction of '
                             f'xs:integer and a list of xs:integer decode as xs:decimal '
                             f'(`data(<m>5</m>) instance of xs:integer` is false)', r.lineno))
    counts['root_type_lookups'] = len(roots)
    return res


def r20_6(ctx, counts) -> RuleResult:
    """apply_schema is skipped only for a tree that still has its types"""
    from ..engine.cfg import CFG, node_writes
    from ..engine.dataflow import branch_facts
    model: Model = ctx.model
    res = RuleResult(
        'R20.6', 'APPLY-SCHEMA-SKIP-REQUIRES-TYPES',
        'XPathContext.schema = proxy clears the types of the tree (clear_types) and applies the '
        'proxy again; the same tree can be shared by contexts. apply_schema may skip its work '
        'when the tree already carries this proxy, but a tree that has been cleared still '
        'records the proxy in tree.schema. So every return of an apply_schema implementation '
        'that is reached before any write of xsd_type / tree.schema and under the fact '
        '`self.tree.schema is schema` is also under a fact that the node is typed '
        '(`self.xsd_type is not None`, `self.is_typed`) - or every clear_types() that resets '
        'xsd_type also resets tree.schema. Otherwise re-setting the same proxy (or None and the '
        'proxy again) leaves the document untyped: data(v) is untypedAtomic instead of xs:int.')
    n = 0
    clearers = [f for f in model.all_functions() if f.name == 'clear_types' and any(
        isinstance(x, ast.Assign) and any(dotted(t).endswith('.xsd_type') for t in x.targets)
        for x in ast.walk(f.node))]
    resets = bool(clearers) and all(any(
        isinstance(x, ast.Assign) and any(dotted(t).endswith('tree.schema') for t in x.targets)
        and isinstance(x.value, ast.Constant) and x.value.value is None
        for x in ast.walk(f.node)) for f in clearers)
    for f in sorted(model.all_functions(), key=lambda q: q.key):
        if f.name != 'apply_schema' or f.cls is None:
            continue
        cfg = CFG(f.node)
        facts = branch_facts(cfg)

        def writes_types(nd) -> bool:
            return any(t.endswith('.xsd_type') or t.endswith('tree.schema')
                       for t, _ in node_writes(nd))
        for nd in cfg.nodes:
            if nd.kind != 'stmt' or not isinstance(nd.ast, ast.Return):
                continue
            fs = facts[nd.id]
            same = [fa for fa in fs if fa.startswith('+') and 'schema is schema' in fa]
            if not same:
                continue
            early = cfg.path_avoiding([cfg.entry], lambda q: q is nd, writes_types,
                                      skip_start=False)
            if early is None:
                continue
            n += 1
            typed = any((fa.startswith('-') and 'xsd_type is None' in fa)
                        or (fa.startswith('+') and ('is_typed' in fa or 'xsd_type is not None' in fa))
                        for fa in fs)
            res.instances.append(f'{f.key}: L{nd.ast.lineno} skip under {sorted(same)[0]}: node '
                                 f'established typed: {typed}; clear_types resets tree.schema: '
                                 f'{resets}')
            if typed or resets:
                res.ok()
            else:
                res.fail(finding('R20.6', f, nd.ast, 'schema application skipped on a cleared tree',
                                 f'{f.name} returns without typing the tree whenever '
                                 f'tree.schema is the proxy, but clear_types() keeps tree.schema: '
                                 f'after `ctx.schema = proxy` on a context that already had it '
                                 f'(or XPathContext(ctx.root, schema=proxy)) every node is '
                                 f'untyped and data(v) is untypedAtomic instead of the declared '
                                 f'type'))
    counts['apply_schema_skips'] = n
    if not clearers:
        raise AnalysisError('no clear_types() resetting xsd_type located')
    return res


def r20_7(ctx, counts) -> RuleResult:
    """a nilled element has the empty sequence as typed value; xsi:nil is read by value"""
    model: Model = ctx.model
    res = RuleResult(
        'R20.7', 'NILLED-TYPED-VALUE-EMPTY',
        'An element with xsi:nil="true" (or "1") is nilled and its typed value is the empty '
        'sequence (XDM 6.2.4); xsi:nil="false" is an ordinary element. In the iter_typed_values '
        'generators of the element node classes every branch whose test mentions xsi:nil (the '
        'XSI_NIL attribute or the `nilled` property) (a) tests the value - a comparison with '
        '"true" / "1", or `.nilled` - not the mere presence `X.get(XSI_NIL)`, and (b) yields '
        'nothing. `yield ""` made data(n) = ("", 3) and `n = 3` raise XPTY0004; the presence test '
        'removed the typed value of <nn xsi:nil="false">5</nn>.')
    n = 0
    for f in sorted(model.all_functions(), key=lambda q: q.key):
        if f.name != 'iter_typed_values' or f.cls is None:
            continue
        parent_of = {id(ch): par for par in ast.walk(f.node) for ch in ast.iter_child_nodes(par)}
        for st in ast.walk(f.node):
            if not isinstance(st, ast.If):
                continue
            mentions = [y for y in ast.walk(st.test)
                        if (isinstance(y, ast.Name) and y.id == 'XSI_NIL')
                        or (isinstance(y, ast.Attribute) and y.attr == 'nilled')]
            if not mentions:
                continue
            n += 1
            problems = []
            for y in mentions:
                if isinstance(y, ast.Name):
                    call = parent_of.get(id(y))
                    while call is not None and not isinstance(call, ast.Call):
                        call = parent_of.get(id(call))
                    up = parent_of.get(id(call)) if call is not None else None
                    # strip()/lower() chains on the value are fine
                    while isinstance(up, ast.Attribute) or (
                            isinstance(up, ast.Call) and isinstance(up.func, ast.Attribute)
                            and up.func.value is not None and up is not call):
                        nxt = parent_of.get(id(up))
                        if nxt is None:
                            break
                        up = nxt
                    if not isinstance(up, ast.Compare):
                        problems.append((st.test, 'tests the presence of xsi:nil, not its value: '
                                                  'xsi:nil="false" is treated as nilled'))
            if any(isinstance(y, (ast.Yield, ast.YieldFrom)) for b in st.body for y in ast.walk(b)):
                problems.append((st, 'yields a value for a nilled element: its typed value is '
                                     'the empty sequence'))
            res.instances.append(f'{f.key}: L{st.lineno} `{stmt_text(st.test)[:60]}`: by value '
                                 f'and empty: {not problems}')
            if not problems:
                res.ok()
            for node, why in problems:
                res.fail(finding('R20.7', f, node, 'xsi:nil: ' + why[:28],
                                 f'`{stmt_text(st.test)[:70]}` {why}'))
    counts['nil_branches'] = n
    if n < 1:
        raise AnalysisError('iter_typed_values: no branch on xsi:nil located')
    return res


def r20_8(ctx, counts) -> RuleResult:
    """the default namespace of an lxml nsmap is under the key None"""
    model: Model = ctx.model
    from ..engine.srcmodel import walk_local
    res = RuleResult(
        'R20.8', 'DEFAULT-NAMESPACE-BOTH-KEYS',
        'A namespace map typed NsmapType / AnyNsmapType can be the nsmap of an lxml element, '
        'which keeps the default namespace under the key None, or a plain dict, which keeps it '
        "under ''. A function that takes such a map (parameter annotation, also of the enclosing "
        "function for a closure) and looks the default namespace up with .get('') or [''] also "
        'consults the key None (`None in m`, `m[None]`, `m.get(None..)`). Otherwise the same '
        'unprefixed xs:QName content is decoded in no namespace with lxml and in the default '
        'namespace with ElementTree.')
    n = 0
    for f in sorted(model.all_functions(), key=lambda q: q.key):
        names = set()
        g = f
        while g is not None:
            a = g.node.args
            for p_ in a.posonlyargs + a.args + a.kwonlyargs:
                if p_.annotation is not None and 'NsmapType' in stmt_text(p_.annotation):
                    names.add(p_.arg)
            g = g.parent
        if not names:
            continue
        for nm in sorted(names):
            empty = [x for x in walk_local(f.node) if (
                isinstance(x, ast.Call) and isinstance(x.func, ast.Attribute)
                and x.func.attr == 'get' and dotted(x.func.value) == nm and x.args
                and isinstance(x.args[0], ast.Constant) and x.args[0].value == '') or (
                isinstance(x, ast.Subscript) and dotted(x.value) == nm
                and isinstance(x.slice, ast.Constant) and x.slice.value == ''
                and isinstance(x.ctx, ast.Load))]
            if not empty:
                continue
            n += 1
            scope = f.node
            none_key = any(
                (isinstance(x, ast.Compare) and isinstance(x.left, ast.Constant)
                 and x.left.value is None and any(dotted(c) == nm for c in x.comparators))
                or (isinstance(x, ast.Subscript) and dotted(x.value) == nm
                    and isinstance(x.slice, ast.Constant) and x.slice.value is None)
                or (isinstance(x, ast.Call) and isinstance(x.func, ast.Attribute)
                    and x.func.attr == 'get' and dotted(x.func.value) == nm and x.args
                    and isinstance(x.args[0], ast.Constant) and x.args[0].value is None)
                or (isinstance(x, ast.Subscript) and isinstance(x.value, ast.Call)
                    and any(isinstance(y, ast.Name) and y.id == nm for y in ast.walk(x.value))
                    and isinstance(x.slice, ast.Constant) and x.slice.value is None)
                for x in ast.walk(scope))
            res.instances.append(f'{f.key}: default namespace of `{nm}` read with the key \'\'; '
                                 f'key None consulted too: {none_key}')
            if none_key:
                res.ok()
            else:
                res.fail(finding('R20.8', f, empty[0], f"default namespace of {nm} by '' only",
                                 f"`{stmt_text(empty[0])[:50]}` reads the default namespace of "
                                 f"`{nm}` (typed as a possible lxml nsmap) with the key '' only: "
                                 f"lxml keeps it under None, so an unprefixed QName value gets no "
                                 f"namespace with lxml and the default namespace with ElementTree"))
    counts['default_namespace_lookups'] = n
    if n < 1:
        raise AnalysisError('no default-namespace lookup on an nsmap-typed parameter located')
    return res


def r20_9(ctx, counts) -> RuleResult:
    """a decoder does not yield inside a try that goes on to another attempt"""
    model: Model = ctx.model
    from ..engine.srcmodel import walk_local
    res = RuleResult(
        'R20.9', 'NO-YIELD-BEFORE-RETRY',
        'The typed value of a node is produced by generators (decoder.get_atomic_sequence, '
        'iter_atomic_values, the iter_typed_values properties). What a generator has yielded '
        'cannot be withdrawn: a `yield` inside the body of a `try` whose handler neither raises '
        'nor returns (the loop goes on to the next prototype / member type) leaks the items '
        'decoded before the failure in front of those of the next attempt. A list of a union '
        'type (int | boolean) with the text "1 true 2" yielded 1, failed on "true" and started '
        'again with the next member type.')
    n = 0
    for f in sorted(model.all_functions(), key=lambda q: q.key):
        if not (f.module.name == 'elementpath.decoder' or f.name == 'iter_typed_values'):
            continue
        if not any(isinstance(x, (ast.Yield, ast.YieldFrom)) for x in walk_local(f.node)):
            continue
        for tr in walk_local(f.node):
            if not isinstance(tr, ast.Try):
                continue
            ys = [y for b in tr.body for y in ast.walk(b)
                  if isinstance(y, (ast.Yield, ast.YieldFrom))]
            if not ys:
                continue
            n += 1
            going_on = [h for h in tr.handlers
                        if not h.body or not isinstance(h.body[-1], (ast.Raise, ast.Return))]
            res.instances.append(f'{f.key}: L{tr.lineno} try with {len(ys)} yield(s); handlers '
                                 f'that go on: {len(going_on)}')
            if not going_on:
                res.ok()
            else:
                res.fail(finding('R20.9', f, ys[0], 'yield inside a try that goes on',
                                 f'`{stmt_text(ys[0])[:50]}` is inside a try whose handler '
                                 f'(`except {stmt_text(going_on[0].type)[:40] if going_on[0].type else ""}`) '
                                 f'neither raises nor returns: the values yielded before a '
                                 f'failure stay in the result and the next attempt yields again '
                                 f'(list of a union type: "1 true 2")'))
    counts['decoder_try_yields'] = n
    res.instances.append(f'{n} try statements with a yield in their body examined')
    return res


def r20_10(ctx, counts) -> RuleResult:
    """numeric functions take the typed value of a typed node, not its string"""
    from ..engine.cfg import CFG
    from ..engine.dataflow import branch_facts
    from ..engine.srcmodel import walk_local
    res = RuleResult(
        'R20.10', 'TYPED-NODE-NUMERIC-ARGUMENT',
        'With a schema the value of a node argument is its typed value (xs:int stays an '
        'integer). In the functions bound to sum, abs, ceiling, floor and round a conversion of '
        'a node through its string (self.number_value(x), get_double(self.string_value(x)), '
        'Decimal(self.string_value(x))) is reached only under a fact that the node is not typed '
        '(`not x.is_typed`, or the negation of an earlier `.. x.is_typed ..` branch) or in XPath '
        '1.0 / compatibility mode. Otherwise sum() of xs:int elements is an xs:double and abs() '
        'of an xs:int attribute an xs:decimal: supplying the schema changes the result type.')
    funcs: dict[FuncInfo, set[str]] = {}
    for rec in ctx.reg.all_records():
        if rec.symbol in ('sum', 'abs', 'ceiling', 'floor', 'round'):
            ref = rec.method('evaluate')
            if ref is not None and ref.func is not None and ref.origin != 'class':
                funcs.setdefault(ref.func, set()).add(rec.symbol)
    if len(funcs) < 4:
        raise AnalysisError(f'numeric functions located: {len(funcs)} < 4')
    n = 0
    for f, syms in sorted(funcs.items(), key=lambda kv: kv[0].key):
        cfg = CFG(f.node)
        facts = branch_facts(cfg)
        via_string = {}
        parent_of = {id(ch): pr for pr in ast.walk(f.node) for ch in ast.iter_child_nodes(pr)}
        for x in walk_local(f.node):
            if isinstance(x, ast.Assign) and len(x.targets) == 1 \
                    and isinstance(x.targets[0], ast.Name) and isinstance(x.value, ast.Call) \
                    and dotted(x.value.func) == 'self.string_value' and x.value.args \
                    and isinstance(x.value.args[0], ast.Name):
                via_string[x.targets[0].id] = x.value.args[0].id
        for c in walk_local(f.node):
            if not isinstance(c, ast.Call):
                continue
            d = dotted(c.func)
            arg = None
            if d == 'self.number_value' and c.args and isinstance(c.args[0], ast.Name):
                arg = c.args[0].id
            elif d in ('get_double', 'Decimal', 'decimal.Decimal', 'float') and c.args \
                    and isinstance(c.args[0], ast.Call) \
                    and dotted(c.args[0].func) == 'self.string_value' and c.args[0].args \
                    and isinstance(c.args[0].args[0], ast.Name):
                arg = c.args[0].args[0].id
            elif d in ('get_double', 'Decimal', 'decimal.Decimal', 'float') and c.args \
                    and isinstance(c.args[0], ast.Name) and c.args[0].id in via_string:
                arg = via_string[c.args[0].id]
            if arg is None:
                continue
            holder = None
            for nd in cfg.nodes:
                if nd.ast is not None and nd.kind in ('stmt', 'test') and any(
                        y is c for e in nd.exprs() for y in ast.walk(e)):
                    holder = nd
                    break
            fs = facts[holder.id] if holder is not None else frozenset()
            node_typed = any(fa.startswith('+') and f'isinstance({arg}, XPathNode)' in fa
                             for fa in fs)
            par = parent_of.get(id(c))
            while par is not None and not isinstance(par, ast.stmt):
                if isinstance(par, ast.IfExp) and f'isinstance({arg}, XPathNode)' in stmt_text(
                        par.test) and any(y is c for y in ast.walk(par.body)):
                    node_typed = True
                par = parent_of.get(id(par))
            if not node_typed:
                continue     # not a node operand (e.g. already atomized values)
            n += 1
            ok = any((fa.startswith('-') and f'{arg}.is_typed' in fa)
                     or (fa.startswith('+') and ("version == '1.0'" in fa
                                                 or 'compatibility_mode' in fa)
                         and ' or ' not in fa)
                     for fa in fs)
            # a generator/loop value that can only be a non-node at this point
            if not ok and any(fa.startswith('-') and f'isinstance({arg}, XPathNode)' in fa
                              for fa in fs):
                ok = True
            # typed nodes were replaced by their typed value by an earlier top-level statement
            if not ok and any(
                    isinstance(st, ast.If) and st.lineno < c.lineno
                    and f'{arg}.is_typed' in stmt_text(st.test)
                    and any(isinstance(y, ast.Assign) and any(dotted(t) == arg for t in y.targets)
                            for b in st.body for y in ast.walk(b))
                    for st in f.node.body):
                ok = True
            res.instances.append(f'{f.key} [{"/".join(sorted(syms))}]: L{c.lineno} '
                                 f'`{stmt_text(c)[:45]}` only for untyped nodes: {ok}')
            if ok:
                res.ok()
            else:
                res.fail(finding('R20.10', f, c, f'{stmt_text(c)[:30]} on a typed node',
                                 f'`{stmt_text(c)[:60]}` converts the node `{arg}` through its '
                                 f'string value whether or not it has a schema type: the typed '
                                 f'value (e.g. xs:int) is lost and fn:{sorted(syms)[0]} returns an '
                                 f'xs:double / xs:decimal'))
    counts['node_number_conversions'] = n
    if n < 3:
        raise AnalysisError(f'node-to-number conversions in the numeric functions: {n} < 3')
    return res


def r20_11(ctx, counts) -> RuleResult:
    """an xsi:type attribute types its element whether or not a declaration matched"""
    from ..engine.cfg import CFG, node_writes
    from ..engine.dataflow import branch_facts
    model: Model = ctx.model
    res = RuleResult(
        'R20.11', 'XSI-TYPE-INDEPENDENT-OF-DECLARATION',
        'An element with a valid xsi:type attribute has that type also when no element '
        'declaration matched it (a lax wildcard, a document element that is not global): the '
        'schema processor assesses it against the xsi:type alone. In apply_schema the lookup '
        '`schema.get_type(<name taken from the xsi:type attribute>)` is therefore reached under '
        'the presence test of the attribute and under no test of a variable that holds the '
        'matched declaration or its type (a name assigned from get_element(), from a loop over '
        'iter_elements(), or from getattr(<declaration>, "type", ..)).')
    n = 0
    for f in sorted(model.all_functions(), key=lambda q: q.key):
        if f.name != 'apply_schema' or f.cls is None:
            continue
        if not any(isinstance(x, ast.Name) and x.id == 'XSI_TYPE' for x in ast.walk(f.node)):
            continue
        cfg = CFG(f.node)
        facts = branch_facts(cfg)
        decl: set[str] = set()
        for _ in range(3):
            for nd in cfg.nodes:
                for t, v in node_writes(nd):
                    if isinstance(v, (ast.For, ast.comprehension)):
                        v = v.iter
                    if v is None or not isinstance(t, str) or '.' in t or '[' in t:
                        continue
                    txt = stmt_text(v)
                    calls = [dotted(c.func).split('.')[-1] for c in ast.walk(v)
                             if isinstance(c, ast.Call)]
                    if 'get_element' in calls or 'iter_elements' in calls or \
                            ('getattr' in calls and any(isinstance(y, ast.Name) and y.id in decl
                                                        for y in ast.walk(v))) or \
                            (isinstance(v, ast.Name) and v.id in decl) or \
                            any(txt == f'{d}.type' for d in decl):
                        decl.add(t)
        for nd in cfg.nodes:
            if nd.ast is None or nd.kind != 'stmt':
                continue
            calls = [c for c in ast.walk(nd.ast) if isinstance(c, ast.Call)
                     and dotted(c.func).split('.')[-1] == 'get_type' and c.args
                     and not (isinstance(c.args[0], ast.Name) and c.args[0].id.isupper())]
            fs = facts[nd.id]
            if not calls or not any(fa.startswith('+') and 'XSI_TYPE in ' in fa for fa in fs):
                continue
            n += 1
            bad = []
            for fa in sorted(fs):
                try:
                    names = {y.id for y in ast.walk(ast.parse(fa[1:], mode='eval'))
                             if isinstance(y, ast.Name)}
                except SyntaxError:
                    names = set()
                if names & decl:
                    bad.append(fa)
            res.instances.append(f'{f.key}: L{nd.ast.lineno} `{stmt_text(nd.ast)[:50]}` under the '
                                 f'xsi:type presence test; tests of the declaration '
                                 f'({"/".join(sorted(decl))}) on the way: {bad or None}')
            if not bad:
                res.ok()
            else:
                res.fail(finding('R20.11', f, nd.ast, 'xsi:type lookup under a declaration test',
                                 f'`{stmt_text(nd.ast)[:50]}` resolves the xsi:type only when '
                                 f'{bad[0][1:]} is {"true" if bad[0][0] == "+" else "false"}: an '
                                 f'element without a matching declaration (lax wildcard, '
                                 f'non-global document element) keeps no type although its '
                                 f'xsi:type is valid, and its typed value is xs:untypedAtomic'))
    counts['xsi_type_lookups'] = n
    if n < 1:
        raise AnalysisError('apply_schema: the xsi:type lookup was not located')
    return res

def r20_12(ctx, counts) -> RuleResult:
    """union members are tried in declaration order: the candidate list is never reordered"""
    model: Model = ctx.model
    res = RuleResult(
        'R20.12', 'CANDIDATE-ORDER-FIXED',
        'An XSD union is ordered: a lexical form gets the type of the FIRST member that accepts '
        'it ("2" under union(xs:decimal-derived, xs:int) is what the declaration order says). In '
        'elementpath/decoder.py a list of candidate prototypes/decoders that a `for` loop tries in '
        'turn is therefore not reordered or shortened: no insert/pop/remove/sort/reverse/append '
        'call, subscript store or del on the iterated name inside a loop that iterates it. A '
        'move-to-front of the member that fitted the previous item makes the type of a list '
        'item depend on its neighbours.')
    mod = model.modules.get('elementpath.decoder')
    if mod is None:
        raise AnalysisError('elementpath/decoder.py vanished')
    muts = {'insert', 'pop', 'remove', 'sort', 'reverse', 'append', 'extend', 'clear'}
    n = 0
    for f in sorted((g for g in model.all_functions() if g.module is mod), key=lambda q: q.key):
        iterated = set()
        for x in walk_local(f.node):
            if isinstance(x, ast.For):
                it = x.iter
                if isinstance(it, ast.Call) and dotted(it.func) in ('enumerate', 'reversed', 'iter') \
                        and it.args:
                    it = it.args[0]
                if isinstance(it, ast.Name):
                    iterated.add(it.id)
        if not iterated:
            continue
        n += 1
        bad = []
        # only what happens while the list is being iterated: the nodes nested in a loop over it
        inside: list[ast.AST] = []
        for lp in walk_local(f.node):
            if isinstance(lp, ast.For):
                it = lp.iter
                if isinstance(it, ast.Call) and dotted(it.func) in ('enumerate', 'reversed', 'iter') \
                        and it.args:
                    it = it.args[0]
                if isinstance(it, ast.Name) and it.id in iterated:
                    inside += [y for st in lp.body + lp.orelse for y in ast.walk(st)]
        for x in inside:
            if isinstance(x, ast.Call) and isinstance(x.func, ast.Attribute) \
                    and x.func.attr in muts and isinstance(x.func.value, ast.Name) \
                    and x.func.value.id in iterated:
                bad.append(x)
            elif isinstance(x, (ast.Assign, ast.AugAssign, ast.Delete)):
                tg = x.targets if not isinstance(x, ast.AugAssign) else [x.target]
                for t in tg:
                    if isinstance(t, ast.Subscript) and isinstance(t.value, ast.Name) \
                            and t.value.id in iterated:
                        bad.append(x)
        res.instances.append(f'{f.key}: iterates {sorted(iterated)}; reordering/mutating calls on '
                             f'them: {len(bad)}')
        if not bad:
            res.ok()
        for x in bad:
            res.fail(finding('R20.12', f, x, f'{stmt_text(x)[:30]} on an iterated candidate list',
                             f'`{stmt_text(x)[:60]}` changes the list the decoder iterates to '
                             f'try the member types in order: the member chosen for an item '
                             f'then depends on the items decoded before it ("1.5 2 3" under '
                             f'list(union(xs:int, xs:decimal)) types 2 and 3 as decimals)'))
    counts['decoder_candidate_loops'] = n
    if n < 1:
        raise AnalysisError('no loop over a named candidate list located in the decoder')
    return res


def run(ctx) -> dict:
    model: Model = ctx.model
    counts: dict[str, int] = {}
    r1 = RuleResult(
        'R20.1', 'PROTOTYPE-TABLE',
        'For every entry `{XSD}N -> prototype` of decoder._ATOMIC_VALUES (both XSD versions, the '
        '1.1 table expanded from its ** spread): the class instantiated by the prototype '
        'expression is the datatype class whose `name` attribute is N; boolean/decimal/double/'
        'string use the Python builtin the type registry uses; the ur-types use UntypedAtomic; '
        'a class that declares a class-level xsd_version (Date10/Date, DateTime10/DateTime, …) '
        'appears in the table of that version.')
    r2 = RuleResult(
        'R20.2', 'PROTOTYPE-COVERAGE',
        'Every concrete atomic datatype class of elementpath.datatypes with a `name` attribute '
        '(the registry C10 checks) has a prototype entry in each version\'s table, or is a list '
        'type in _LIST_VALUES, or is declared abstract/union below.')
    mod, tabs, list_names = tables(model)
    if set(tabs) != {'1.0', '1.1'}:
        raise AnalysisError(f'decoder tables located for versions {sorted(tabs)}')
    any_atomic = model.find_class('AnyAtomicType')
    n = 0
    for ver, tab in sorted(tabs.items()):
        for name, v in sorted(tab.items()):
            n += 1
            pc = prototype_class(model, mod, v)
            label = f'[{ver}] {name} -> {stmt_text(v)[:40]}'
            if pc is None:
                raise AnalysisError(f'decoder table: prototype of {name} not resolved '
                                    f'({stmt_text(v)[:50]})')
            ok = False
            why = ''
            if name in UR_TYPES:
                ok = pc[0] == 'class' and pc[1].name == 'UntypedAtomic'
                why = 'ur-types decode to UntypedAtomic'
            elif name in BUILTIN_PROTOTYPES and pc[0] == 'builtin':
                ok = pc[1] == BUILTIN_PROTOTYPES[name]
                why = f'{name} is represented by the builtin {BUILTIN_PROTOTYPES[name]}'
            elif pc[0] == 'class':
                c: ClassInfo = pc[1]
                cname = class_name_attr(model, c)
                ok = cname == name
                why = f'class {c.name} has name={cname!r}'
                if ok:
                    cver = class_xsd_version(model, c)
                    if cver is not None and cver != ver:
                        ok = False
                        why = (f'class {c.name} declares xsd_version={cver!r} but the entry is '
                               f'in the {ver} table')
                    elif cver is not None:
                        why += f', xsd_version={cver!r}'
            else:
                why = f'prototype is the builtin {pc[1]}'
            r1.instances.append(f'{label}: {why}')
            if ok:
                r1.ok()
            else:
                r1.fail(Finding('R20.1', mod.relpath, '<module>', f'[{ver}] {name}',
                                f'decoder._ATOMIC_VALUES[{ver!r}]: the prototype of xs:{name} is '
                                f'`{stmt_text(v)[:50]}` ({why}); nodes declared xs:{name} get a '
                                f'typed value of another datatype class', v.lineno))
    counts['prototype_entries'] = n
    if n < 80:
        raise AnalysisError(f'only {n} prototype entries located')
    # coverage
    named: dict[str, list[str]] = {}
    for c in model.all_classes():
        if not c.module.name.startswith('elementpath.datatypes'):
            continue
        if 'name' in c.attrs and c.is_subclass_of(any_atomic):
            v = model.try_fold(c.module, c.attrs['name'])
            if isinstance(v, str):
                named.setdefault(v, []).append(c.name)
    abstract_or_union = {'numeric', 'anyAtomicType', 'error'}
    for name, classes in sorted(named.items()):
        r2.instances.append(f'xs:{name} ({"/".join(classes)})')
        if name in abstract_or_union or name in list_names:
            r2.ok()
            continue
        missing = [v for v, tab in tabs.items() if name not in tab
                   and not (name == 'dateTimeStamp' and v == '1.0')]
        if missing:
            r2.fail(Finding('R20.2', mod.relpath, '<module>', f'no prototype for {name}',
                            f'datatype xs:{name} ({"/".join(classes)}) has no prototype in '
                            f'decoder._ATOMIC_VALUES[{"/".join(missing)}]: nodes of that type '
                            f'fall back to the schema processor\'s decode or to untypedAtomic'))
        else:
            r2.ok()
    counts['named_atomic_types'] = len(named)
    # typed values are a function of (node, schema): the decoder and the node classes keep no
    # process-wide state beyond the reviewed inventory (no cross-evaluation caches)
    from .c19_global import r19_5 as _r19_5
    _state = _r19_5(ctx, counts, lambda f: f.module.name in (
        'elementpath.decoder', 'elementpath.schema_proxy', 'elementpath.xpath_nodes',
        'elementpath.xpath_context'), 0)
    from .c05_purity import r05_10 as _r05_10
    _memo = _r05_10(ctx, counts)
    _memo.title = ('ARGUMENT-KEYED-MEMO (R05.10 shared: prototypes cached under a type name '
                   'serve another schema)')
    return {
        'results': [r1, r2, r20_3(ctx, counts), r20_4(ctx, counts), r20_5(ctx, counts),
                    r20_6(ctx, counts), r20_7(ctx, counts), r20_8(ctx, counts),
                    r20_9(ctx, counts), r20_10(ctx, counts), r20_11(ctx, counts), r20_12(ctx, counts),
                    _memo, _state], 'counts': counts,
        'explanation':
            'Only the table-shaped necessary condition of "the typed value is an instance of the '
            'datatype class of its declared type" is decided: the prototype table that '
            'get_atomic_sequence instantiates from maps every XSD builtin name to the datatype '
            'class of that name, per XSD version, and covers every named atomic datatype.',
        'not_decided':
            '(Decided besides the tables: re-setting a proxy types the tree again, R20.6; '
            'nilled elements have an empty typed value, R20.7.) '
            'Equality with the schema processor\'s decoding, instance-of for base types, typed '
            'arithmetic, and "a schema never changes node selection" depend on the external '
            'schema processor (xmlschema) and on extensional equality of branches; not decided.',
        'assumptions': ['decode() instantiates value.__class__/value.fromstring (re-read: the '
                        'rule fails with ANALYSIS-ERROR if get_atomic_sequence no longer does)'],
    }
