"""
C15 — maps and arrays are immutable values.

R15.1 STORAGE-ALIAS       ownership taint: storage handed out by XPathArray/XPathMap accessors
                          (or values owned by it) must not reach a mutating sink
R15.2 FORALL-EARLY-ACCEPT a loop that implements a universal check must not return a
                          non-False value from inside the loop
"""
from __future__ import annotations

import ast
from typing import Optional

from ..engine.srcmodel import AnalysisError, FuncInfo, Model, dotted, stmt_text, walk_local
from ..engine.cfg import CFG, Node, calls_may_raise
from ..engine.dataflow import branch_facts
from ..engine.taint import Taint, State
from ..engine.report import RuleResult
from .common import finding

MUTATORS = {'append', 'extend', 'insert', 'pop', 'remove', 'clear', 'sort', 'reverse', 'update',
            'setdefault', 'popitem', '__setitem__', '__delitem__', 'add', 'discard'}
STORAGE_ATTRS = {'XPathArray': '_array', 'XPathMap': '_map'}
PASS_THROUGH_ITER = {'enumerate', 'zip', 'reversed', 'iter', 'zip_longest', 'filter'}


def exposing_methods(model: Model) -> tuple[set[str], set[str]]:
    """(methods returning the array storage itself, methods returning views of map storage)."""
    arr, mp = set(), set()
    for cname, attr in STORAGE_ATTRS.items():
        cls = model.find_class(cname)
        for name, m in cls.methods.items():
            if name.startswith('__'):
                continue
            for r in walk_local(m.node):
                if isinstance(r, ast.Return) and r.value is not None:
                    if stmt_text(r.value) == f'self.{attr}':
                        (arr if cname == 'XPathArray' else mp).add(name)
                    elif cname == 'XPathMap' and any(
                            isinstance(x, ast.Attribute) and dotted(x) == f'self.{attr}'
                            for x in ast.walk(r.value)) and not isinstance(r.value, ast.Subscript):
                        mp.add(name)
    return arr, mp


def local_types(f: FuncInfo) -> dict[str, set[str]]:
    out: dict[str, set[str]] = {}
    a = f.node.args
    for p in a.posonlyargs + a.args + a.kwonlyargs:
        if p.annotation is not None:
            out.setdefault(p.arg, set()).update(
                n.id for n in ast.walk(p.annotation) if isinstance(n, ast.Name))
            out[p.arg].update(n.value for n in ast.walk(p.annotation)
                              if isinstance(n, ast.Constant) and isinstance(n.value, str))
    for n in walk_local(f.node):
        if isinstance(n, ast.AnnAssign) and isinstance(n.target, ast.Name):
            out.setdefault(n.target.id, set()).update(
                x.id for x in ast.walk(n.annotation) if isinstance(x, ast.Name))
        val = getattr(n, 'value', None)
        tgt = None
        if isinstance(n, ast.Assign) and len(n.targets) == 1 and isinstance(n.targets[0], ast.Name):
            tgt = n.targets[0].id
        elif isinstance(n, ast.AnnAssign) and isinstance(n.target, ast.Name):
            tgt = n.target.id
        if tgt and isinstance(val, ast.Call):
            for k in val.keywords:
                if k.arg == 'cls':
                    out.setdefault(tgt, set()).update(
                        x.id for x in ast.walk(k.value) if isinstance(x, ast.Name))
    return out


def analyse(f: FuncInfo, arr_m: set[str], map_m: set[str], res: RuleResult) -> int:
    """Returns the number of source sites seen in f."""
    src_calls = [n for n in walk_local(f.node) if isinstance(n, ast.Call)
                 and isinstance(n.func, ast.Attribute) and n.func.attr in (arr_m | map_m)]
    src_attrs = [n for n in walk_local(f.node) if isinstance(n, ast.Attribute)
                 and n.attr in STORAGE_ATTRS.values() and dotted(n.value) != 'self']
    own_storage = f.cls is not None and f.cls.name in STORAGE_ATTRS and f.name != '__init__'
    self_attrs = [n for n in walk_local(f.node) if isinstance(n, ast.Attribute)
                  and n.attr in STORAGE_ATTRS.values() and dotted(n.value) == 'self'] \
        if own_storage else []
    if not src_calls and not src_attrs and not self_attrs:
        return 0
    cfg = CFG(f.node, calls_may_raise)
    facts = branch_facts(cfg)
    types = local_types(f)

    def recv_kind(recv: ast.AST, n: Node, call: ast.Call) -> Optional[str]:
        names: set[str] = set()
        if isinstance(recv, ast.Name):
            names |= types.get(recv.id, set())
            for fact in facts.get(n.id, ()):
                if fact.startswith(f'+isinstance({recv.id},'):
                    names |= {x for x in ('XPathArray', 'XPathMap') if x in fact}
        elif dotted(recv) == 'self' and f.cls is not None:
            names.add(f.cls.name)
        if 'XPathArray' in names and 'XPathMap' not in names:
            return 'array'
        if 'XPathMap' in names and 'XPathArray' not in names:
            return 'map'
        if names & {'dict', 'Dict', 'Mapping', 'MutableMapping'}:
            return None
        if call.args or call.keywords:      # dict.items()/values()/keys() take no argument
            return 'either'
        return None

    def expr_taint(e: ast.AST, st: State, n: Node) -> set[str]:
        if isinstance(e, ast.Attribute) and e.attr in STORAGE_ATTRS.values():
            if dotted(e.value) != 'self' or own_storage:
                return {'alias'}
        if isinstance(e, ast.Call) and isinstance(e.func, ast.Attribute):
            if e.func.attr in arr_m:
                k = recv_kind(e.func.value, n, e)
                if k in ('array', 'either'):
                    return {'alias'}
        return set()

    def iter_taint(e: ast.AST, st: State, n: Node) -> set[str]:
        out: set[str] = set()
        if isinstance(e, ast.Name):
            if 'alias' in st.get(e.id, ()):
                out.add('owned')
        if 'alias' in expr_taint(e, st, n):
            out.add('owned')
        if isinstance(e, ast.Call):
            if isinstance(e.func, ast.Attribute) and e.func.attr in map_m:
                k = recv_kind(e.func.value, n, e)
                if k in ('map', 'either'):
                    out.add('owned')
            if isinstance(e.func, ast.Name) and e.func.id in PASS_THROUGH_ITER:
                for a in e.args:
                    out |= iter_taint(a, st, n)
        return out

    t = Taint(cfg, expr_taint, iter_taint)
    # helpers nested in the function that mutate one of their parameters in place: a call that
    # passes a tainted value in that position is a sink too
    nested_mut: dict[str, set[int]] = {}
    for h in ast.walk(f.node):
        if isinstance(h, ast.FunctionDef) and h is not f.node:
            hp = [p_.arg for p_ in h.args.posonlyargs + h.args.args]
            idx = {hp.index(c.func.value.id) for c in ast.walk(h)
                   if isinstance(c, ast.Call) and isinstance(c.func, ast.Attribute)
                   and c.func.attr in MUTATORS and isinstance(c.func.value, ast.Name)
                   and c.func.value.id in hp}
            if idx:
                nested_mut[h.name] = idx
    for n in cfg.nodes:
        st = t.at(n)
        for x in n.walk():
            tainted: set[str] = set()
            what = ''
            node: ast.AST = x
            if isinstance(x, ast.Call) and isinstance(x.func, ast.Name) \
                    and x.func.id in nested_mut:
                for i_ in nested_mut[x.func.id]:
                    if i_ < len(x.args):
                        k = t.value_taint(x.args[i_], st, n) & {'alias', 'owned'}
                        if k:
                            tainted |= k
                            what = (f'{x.func.id}({stmt_text(x.args[i_])[:30]}, ..), which mutates '
                                    f'that parameter in place')
            elif isinstance(x, ast.Call) and isinstance(x.func, ast.Attribute) \
                    and x.func.attr in MUTATORS:
                tainted = t.value_taint(x.func.value, st, n) & {'alias', 'owned'}
                what = f'{stmt_text(x.func.value)}.{x.func.attr}()'
            elif isinstance(x, (ast.Assign, ast.AugAssign, ast.Delete)) and x is n.ast:
                tgts = x.targets if isinstance(x, (ast.Assign, ast.Delete)) else [x.target]
                for tg in tgts:
                    if isinstance(tg, ast.Subscript):
                        k = t.value_taint(tg.value, st, n) & {'alias', 'owned'}
                        if k:
                            tainted |= k
                            what = f'{stmt_text(tg)[:40]} store'
                    elif isinstance(x, ast.AugAssign) and isinstance(tg, ast.Name):
                        k = t.value_taint(tg, st, n) & {'alias', 'owned'}
                        if k:
                            tainted |= k
                            what = f'{tg.id} {type(x.op).__name__}='
            if tainted:
                kind = 'the operand\'s own storage' if 'alias' in tainted else \
                    'a value owned by the operand'
                res.fail(finding('R15.1', f, node, what,
                                 f'`{what}` mutates {kind} (array/map storage reached through '
                                 f'{sorted(arr_m | map_m)} or ._array/._map): the original '
                                 f'map/array is observably changed'))
    return len(src_calls) + len(src_attrs) + len(self_attrs)


def r15_1(ctx, counts: dict[str, int]) -> RuleResult:
    model: Model = ctx.model
    arr_m, map_m = exposing_methods(model)
    res = RuleResult(
        'R15.1', 'STORAGE-ALIAS',
        'Sources (derived from the classes): methods of XPathArray that return self._array '
        f'({sorted(arr_m)}) yield an alias of the storage; methods of XPathMap that return views '
        f'of self._map ({sorted(map_m)}) and iteration over an array alias yield values owned by '
        'the operand; direct reads of ._array/._map are aliases. Propagation: assignment, tuple '
        'unpacking, storing into and loading from a local container. Laundering: slicing, '
        'list(), sorted(), comprehensions, copy. Sinks: '
        f'{sorted(MUTATORS)}, subscript store/delete, augmented assignment. Every function of '
        'the package is analysed with a forward may-taint over its CFG.')
    if not arr_m and not map_m:
        raise AnalysisError('no storage-exposing accessor found on XPathArray/XPathMap')
    sites = funcs = 0
    for f in model.all_functions():
        before = len(res.findings)
        k = analyse(f, arr_m, map_m, res)
        if k:
            funcs += 1
            sites += k
            res.instances.append(f'{f.key}: {k} storage access site(s)')
            if len(res.findings) == before:
                res.ok()
            if len(res.samples) < 8:
                res.samples.append({'rule': 'R15.1', 'function': f.key, 'source_sites': k})
    counts['storage_access_sites'] = sites
    counts['functions_with_storage_access'] = funcs
    counts['exposing_methods'] = len(arr_m) + len(map_m)
    return res


def r15_2(ctx, counts: dict[str, int]) -> RuleResult:
    model: Model = ctx.model
    res = RuleResult(
        'R15.2', 'FORALL-EARLY-ACCEPT',
        'Instances: functions whose last statement is `return True` preceded by a for loop that '
        'contains `return False` (a universal check over the loop). Inside that loop every '
        'return must be the constant False; a return of anything else decides the whole '
        'sequence from one element.')
    n = 0
    for f in model.all_functions():
        body = f.node.body
        if not body or not isinstance(body[-1], ast.Return) or \
                not (isinstance(body[-1].value, ast.Constant) and body[-1].value.value is True):
            continue
        loops = [s for s in ast.walk(f.node) if isinstance(s, ast.For)]
        for lp in loops:
            rets = [r for r in walk_local(lp) if isinstance(r, ast.Return)]
            if not any(isinstance(r.value, ast.Constant) and r.value.value is False
                       for r in rets):
                continue
            # the loop must be on the path to the final `return True`
            if not any(lp is s or any(lp is x for x in ast.walk(s)) for s in body[:-1]):
                continue
            n += 1
            res.instances.append(f'{f.key}: forall loop at L{lp.lineno} with {len(rets)} returns')
            for r in rets:
                if isinstance(r.value, ast.Constant) and r.value.value is False:
                    res.ok()
                    continue
                res.fail(finding('R15.2', f, r, f'return {stmt_text(r.value)[:40] if r.value else ""}',
                                 f'`{stmt_text(r)[:60]}` inside the universal loop accepts or '
                                 f'decides the whole comparison at the first such element; '
                                 f'later elements are never compared'))
            res.samples.append({'rule': 'R15.2', 'function': f.key, 'loop_line': lp.lineno,
                                'returns': [stmt_text(r)[:50] for r in rets][:8]})
    counts['forall_loops'] = n
    return res


def r15_4(ctx, counts) -> RuleResult:
    """NaN is one key: the duplicate error is raised on the SECOND NaN key, not the first"""
    from ..engine.cfg import CFG
    from ..engine.dataflow import branch_facts
    model: Model = ctx.model
    res = RuleResult(
        'R15.4', 'NAN-KEY-GUARD-POLARITY',
        'XPathMap keeps the NaN key (same-key: NaN equals NaN) in a separate state, initially '
        'False. Every `raise …error("XQDY0137")` that depends on that state is reached only when '
        'the state already holds a key — the branch facts at the raise contain "state is not '
        'False" — in each of the sibling builders (__init__ and _evaluate). With the polarity '
        'inverted a map with a single NaN key cannot be built at all.')
    cls = model.find_class('XPathMap')
    n = 0
    for name in ('__init__', '_evaluate'):
        f = cls.methods.get(name)
        if f is None:
            raise AnalysisError(f'XPathMap.{name} vanished')
        cfg = CFG(f.node)
        facts = branch_facts(cfg)
        for nd in cfg.nodes:
            if nd.kind != 'stmt' or not isinstance(nd.ast, ast.Raise):
                continue
            if 'XQDY0137' not in stmt_text(nd.ast):
                continue
            state = [fa for fa in facts[nd.id] if 'nan_key' in fa]
            if not state:
                continue            # the ordinary duplicate test `k in _map`
            n += 1
            seen = any(fa.startswith('-') and fa.endswith(' is False') for fa in state) or \
                any(fa.startswith('+') and not fa.endswith(' is False') and ' is ' not in fa
                    for fa in state)
            res.instances.append(f'{f.key}: XQDY0137 under {state}: raised when a NaN key was '
                                 f'already stored={seen}')
            if seen:
                res.ok()
            else:
                res.fail(finding('R15.4', f, nd.ast, 'NaN duplicate guard inverted',
                                 f'`{stmt_text(nd.ast)[:50]}` is reached under {state}: the '
                                 f'duplicate-key error fires for the first NaN key (the state '
                                 f'still has its initial value False), so map{{xs:double("NaN"): 1}} '
                                 f'cannot be built; the sibling builder tests the opposite'))
    counts['nan_key_guards'] = n
    if n < 2:
        raise AnalysisError(f'only {n} NaN-key duplicate guards located in XPathMap')
    return res


def _dict_names(f: FuncInfo) -> set[str]:
    """names of the dict under construction in a method of XPathMap: `_map`, or a local that is
    later stored as self._map or returned by _evaluate"""
    dicts = {'_map'}
    for x in walk_local(f.node):
        if isinstance(x, ast.Assign) and isinstance(x.value, ast.Name) and any(
                isinstance(t, ast.Attribute) and t.attr == '_map' for t in x.targets):
            dicts.add(x.value.id)
        elif isinstance(x, ast.Return) and isinstance(x.value, ast.Name) \
                and f.name == '_evaluate':
            dicts.add(x.value.id)
    return dicts


def r15_6(ctx, counts) -> RuleResult:
    """op:same-key vs Python dict equality: booleans are not the numbers 1 and 0"""
    model: Model = ctx.model
    res = RuleResult(
        'R15.6', 'MAP-KEY-DICT-SEMANTICS',
        'XPathMap stores its entries in a Python dict, whose key equality differs from '
        'op:same-key in two ways: NaN is not equal to itself (the builders keep it under a '
        'separate slot — R15.4) and True/False are equal to, and hash like, 1/0, while '
        'same-key(true(), 1) is false. Every function of XPathMap that stores an atomized key '
        'into the dict (`_map[k] = …` with k a bare name) therefore tests `isinstance(k, bool)` '
        '(or passes the key through a normalising call) as it does for NaN. Without it '
        'map{true():1, 1:2} raises XQDY0137 and map:get(map{1:"a"}, true()) returns "a".')
    cls = model.find_class('XPathMap')
    n = 0
    for name, f in sorted(cls.methods.items()):
        dn = _dict_names(f)
        stores = [x for x in walk_local(f.node) if isinstance(x, (ast.Assign, ast.AugAssign))
                  for t in (x.targets if isinstance(x, ast.Assign) else [x.target])
                  if isinstance(t, ast.Subscript) and dotted(t.value).split('.')[-1] in dn
                  and isinstance(t.slice, ast.Name)]
        if not stores:
            continue
        n += 1
        keys = {x.targets[0].slice.id for x in stores          # type: ignore[union-attr]
                if isinstance(x, ast.Assign) and isinstance(x.targets[0], ast.Subscript)}
        nan = any(isinstance(c, ast.Call) and dotted(c.func) in ('math.isnan', 'isnan')
                  for c in walk_local(f.node))
        boolean = any(isinstance(c, ast.Call) and dotted(c.func) == 'isinstance' and len(c.args) == 2
                      and isinstance(c.args[0], ast.Name) and c.args[0].id in keys
                      and 'bool' in {dotted(e) for e in (c.args[1].elts if isinstance(
                          c.args[1], ast.Tuple) else [c.args[1]])}
                      for c in walk_local(f.node))
        res.instances.append(f'{f.key}: stores keys {sorted(keys)} into the dict; NaN case='
                             f'{nan} boolean case={boolean}')
        if boolean:
            res.ok()
        else:
            res.fail(finding('R15.6', f, stores[0], 'boolean keys share the slots of 1 and 0',
                             f'{f.name} stores the atomized key into a Python dict '
                             f'(`{stmt_text(stores[0])[:40]}`) without separating booleans: '
                             f'True == 1 and hash(True) == hash(1), so map{{true():1, 1:2}} '
                             f'raises XQDY0137 and map:get(map{{1:"a"}}, true()) returns "a" '
                             f'although same-key(true(), 1) is false'))
    counts['map_key_store_functions'] = n
    if n < 2:
        raise AnalysisError(f'only {n} functions of XPathMap store keys into the dict')
    return res


def r15_7(ctx, counts) -> RuleResult:
    """map keys are compared with the same-key relation, not with =="""
    model: Model = ctx.model
    res = RuleResult(
        'R15.7', 'SAME-KEY-COMPARISON',
        'Two map keys are the same key under op:same-key, for which NaN is the same key as NaN; '
        'Python\'s == says NaN != NaN. In the functions of the map namespace and in XPathMap a '
        'key obtained by iterating the entries of a map (the first target of a loop or '
        'comprehension over `.items(..)`, or the target over `.keys(..)`) is compared with '
        'another key through helpers.equal / not_equal, never with == / != unless the NaN case '
        'of the other operand was handled before (a dominating negative fact on math.isnan). '
        '(map:remove and '
        'map:put did; map:find did not: map:find(map{xs:double("NaN"): 1}, xs:double("NaN")) '
        'was the empty array.)')
    funcs = set()
    for rec in ctx.reg.all_records():
        ns = rec.get(model, 'namespace')
        if isinstance(ns, str) and ns.endswith('/xpath-functions/map'):
            for slot in ('evaluate', 'select'):
                ref = rec.method(slot)
                if ref is not None and ref.func is not None and ref.origin != 'class':
                    funcs.add(ref.func)
    cls = model.find_class('XPathMap')
    funcs |= {f for f in cls.module.functions.values() if f.cls is cls}
    # nested helpers
    funcs |= {g for f in list(funcs) for g in f.module.functions.values() if g.parent is f}
    n = 0
    for f in sorted(funcs, key=lambda q: q.key):
        keys: set[str] = set()
        for x in walk_local(f.node):
            gens = []
            if isinstance(x, ast.For):
                gens = [(x.target, x.iter)]
            elif isinstance(x, (ast.ListComp, ast.SetComp, ast.DictComp, ast.GeneratorExp)):
                gens = [(g.target, g.iter) for g in x.generators]
            for tgt, it in gens:
                if isinstance(it, ast.Call) and isinstance(it.func, ast.Attribute):
                    if it.func.attr == 'items' and isinstance(tgt, ast.Tuple) and tgt.elts \
                            and isinstance(tgt.elts[0], ast.Name):
                        keys.add(tgt.elts[0].id)
                    elif it.func.attr == 'keys' and isinstance(tgt, ast.Name):
                        keys.add(tgt.id)
        if not keys:
            continue
        cfg_facts = None
        for x in walk_local(f.node):
            if isinstance(x, ast.Compare) and len(x.ops) == 1 \
                    and isinstance(x.ops[0], (ast.In, ast.NotIn)) \
                    and isinstance(x.left, ast.Name) and x.left.id in keys \
                    and dotted(x.comparators[0]).split('.')[-1] != '_map':
                # membership of a map key in a Python container is == and hash: NaN is never in
                n += 1
                from ..engine.cfg import CFG as _CFG2
                from ..engine.dataflow import branch_facts as _bf2
                _c2 = _CFG2(f.node)
                _f2 = _bf2(_c2)
                _h = next((nd for nd in _c2.nodes if nd.ast is not None
                           and nd.kind in ('stmt', 'test')
                           and any(y is x for e2 in nd.exprs() for y in ast.walk(e2))), None)
                _fs = _f2[_h.id] if _h is not None else frozenset()
                if any(f'isnan({x.left.id})' in fa for fa in _fs):
                    res.instances.append(f'{f.key}: L{x.lineno} `{stmt_text(x)}` membership test '
                                         f'after the NaN case of the key was separated')
                    res.ok()
                    continue
                res.instances.append(f'{f.key}: L{x.lineno} `{stmt_text(x)}` membership test on '
                                     f'a map key')
                res.fail(finding('R15.7', f, x, f'key membership {stmt_text(x)[:24]}',
                                 f'`{stmt_text(x)[:50]}` looks a key of the map up in a Python '
                                 f'container (== and hash): a NaN key is never found there, '
                                 f'while op:same-key treats NaN as the same key as NaN '
                                 f'(map:remove($m, ("a", xs:double("NaN"))) keeps the NaN entry)'))
                continue
            if isinstance(x, ast.Compare) and len(x.ops) == 1 \
                    and isinstance(x.ops[0], (ast.Eq, ast.NotEq)):
                sides = [x.left, x.comparators[0]]
                if any(isinstance(e, ast.Name) and e.id in keys for e in sides) and not any(
                        isinstance(e, ast.Constant) for e in sides):
                    n += 1
                    # NaN dealt with before: a dominating negative fact on math.isnan(<operand>)
                    if cfg_facts is None:
                        from ..engine.cfg import CFG as _CFG
                        from ..engine.dataflow import branch_facts as _bf
                        _c = _CFG(f.node)
                        cfg_facts = (_c, _bf(_c))
                    holder = None
                    for nd in cfg_facts[0].nodes:
                        if nd.ast is not None and nd.kind in ('stmt', 'test') and any(
                                y is x for e2 in nd.exprs() for y in ast.walk(e2)):
                            holder = nd
                            break
                    fs = cfg_facts[1][holder.id] if holder is not None else frozenset()
                    others = [stmt_text(e) for e in sides
                              if not (isinstance(e, ast.Name) and e.id in keys)]
                    if any(fa.startswith('-') and any(f'math.isnan({o})' in fa for o in others)
                           for fa in fs):
                        res.instances.append(f'{f.key}: L{x.lineno} `{stmt_text(x)}` after the '
                                             f'NaN case was handled')
                        res.ok()
                        continue
                    res.instances.append(f'{f.key}: L{x.lineno} `{stmt_text(x)}` on a map key')
                    res.fail(finding('R15.7', f, x, f'key compared with {stmt_text(x)[:20]}',
                                     f'`{stmt_text(x)[:50]}` compares a key of the map with '
                                     f'Python equality: a NaN key never equals the NaN searched '
                                     f'for (op:same-key treats them as the same key)'))
        helper_calls = [c for c in walk_local(f.node) if isinstance(c, ast.Call)
                        and dotted(c.func) in ('equal', 'not_equal')
                        and any(isinstance(a, ast.Name) and a.id in keys for a in c.args)]
        for c in helper_calls:
            n += 1
            res.instances.append(f'{f.key}: L{c.lineno} `{stmt_text(c)[:40]}` same-key helper')
            res.ok()
    counts['map_key_comparisons'] = n
    if n < 3:
        raise AnalysisError(f'map key comparisons located: {n} < 3')
    return res

def r15_8(ctx, counts) -> RuleResult:
    """each store of an atomized key happens on the branch where the NaN and duplicate cases
    were excluded (per store, path-sensitive; R15.6 is per function)"""
    model: Model = ctx.model
    res = RuleResult(
        'R15.8', 'KEY-STORE-CLASSIFIED',
        'The entries of an XPathMap live in a Python dict; the keys are distinct under '
        'op:same-key only because every builder classifies each key before it stores it: NaN '
        '(not equal to itself for the dict) goes to its own slot and a key already present '
        'raises XQDY0137. For every store `<..>_map[k] = …` with k a bare name in a method of '
        'XPathMap the branch facts that hold on every path to the store contain the negation '
        'of a test on math.isnan(k) and the negation of `k in <dict>`. A second store loop '
        'added beside the classified one (a "keys are known to be distinct" fast path) puts '
        'two NaN entries, or a NaN entry that no lookup finds, in a map built by map:put / '
        'map:merge.')
    cls = model.find_class('XPathMap')
    n = 0
    for name, f in sorted(cls.methods.items()):
        stores = []
        dicts = _dict_names(f)
        for x in walk_local(f.node):
            if isinstance(x, (ast.Assign, ast.AugAssign)):
                for t in (x.targets if isinstance(x, ast.Assign) else [x.target]):
                    if isinstance(t, ast.Subscript) and isinstance(t.slice, ast.Name) \
                            and dotted(t.value).split('.')[-1] in dicts:
                        stores.append((x, t))
        if not stores:
            continue
        cfg = CFG(f.node)
        facts = branch_facts(cfg)
        for x, t in stores:
            k = t.slice.id                                   # type: ignore[attr-defined]
            holder = next((nd for nd in cfg.nodes if nd.kind == 'stmt' and nd.ast is x), None)
            if holder is None:
                raise AnalysisError(f'{f.key}: store L{x.lineno} not found in the CFG')
            fs = facts[holder.id]
            nan = any(fa.startswith('-') and (f'math.isnan({k})' in fa or f'isnan({k})' in fa)
                      for fa in fs)
            dup = any(fa.startswith('-') and fa[1:].startswith(f'{k} in ') for fa in fs)
            n += 1
            res.instances.append(f'{f.key}: L{x.lineno} `{stmt_text(x)[:40]}` NaN excluded={nan} '
                                 f'duplicate excluded={dup}')
            if nan and dup:
                res.ok()
            else:
                what = 'NaN' if not nan else 'an already stored key'
                res.fail(finding('R15.8', f, x, f'unclassified key store {stmt_text(t)}',
                                 f'`{stmt_text(x)[:50]}` is reached on a path where {what} was '
                                 f'not excluded (facts: {sorted(fs)}): the dict then holds a '
                                 f'key the lookups (which treat NaN through the separate slot '
                                 f'and keys as distinct) cannot find or holds it twice'))
    counts['classified_key_stores'] = n
    builders = {i.split(':')[1].split()[0].rstrip(':') for i in res.instances}
    if not {'XPathMap.__init__', 'XPathMap._evaluate'} <= builders:
        raise AnalysisError(f'key stores located only in {sorted(builders)}: both builders of '
                            f'XPathMap (__init__, _evaluate) store keys on the pinned tree')
    return res


FRESH_CALLS = {'dict', 'list', 'xlist', 'sorted', 'tuple', 'OrderedDict', 'self._evaluate'}


def r15_9(ctx, counts) -> RuleResult:
    """the storage of a map/array is a container built by the object itself"""
    model: Model = ctx.model
    res = RuleResult(
        'R15.9', 'STORAGE-OWNED',
        'A map or array is a value: nothing outside it holds a reference to its dict / list. '
        'Every assignment to the storage attribute (XPathMap._map, XPathArray._array) in the '
        'package has a fresh container on its right-hand side: a display or comprehension, a '
        'call of dict/list/xlist/sorted or of the object\'s own _evaluate, or a local name '
        'whose every assignment in the function is one of those. A parameter (or an attribute '
        'or element of another object) stored as is makes the caller\'s dictionary the map: '
        'map:merge keeps filling or reusing it afterwards.')
    n = 0
    for mod in model.modules.values():
        if not mod.name.startswith('elementpath'):
            continue
        for f in mod.functions.values():
            params = {a.arg for a in f.node.args.args + f.node.args.kwonlyargs
                      + f.node.args.posonlyargs}
            for x in walk_local(f.node):
                tgts = []
                if isinstance(x, ast.Assign):
                    tgts, val = x.targets, x.value
                elif isinstance(x, ast.AnnAssign) and x.value is not None:
                    tgts, val = [x.target], x.value
                for t in tgts:
                    if not (isinstance(t, ast.Attribute) and t.attr in STORAGE_ATTRS.values()):
                        continue
                    if isinstance(val, ast.Constant) and val.value is None:
                        continue
                    n += 1

                    def fresh(e: ast.expr, depth: int = 0) -> bool:
                        if isinstance(e, (ast.Dict, ast.List, ast.DictComp, ast.ListComp)):
                            return True
                        if isinstance(e, ast.Call):
                            return dotted(e.func) in FRESH_CALLS or \
                                dotted(e.func).split('.')[-1] in ('copy', 'deepcopy', '_evaluate')
                        if isinstance(e, ast.Name) and e.id not in params and depth < 3:
                            defs = [y.value for y in walk_local(f.node)
                                    if isinstance(y, (ast.Assign, ast.AnnAssign))
                                    and y.value is not None
                                    for tt in (y.targets if isinstance(y, ast.Assign)
                                               else [y.target])
                                    if isinstance(tt, ast.Name) and tt.id == e.id]
                            return bool(defs) and all(fresh(d, depth + 1) for d in defs)
                        return False
                    ok = fresh(val)
                    res.instances.append(f'{f.key}: L{x.lineno} `{stmt_text(x)[:50]}` fresh={ok}')
                    if ok:
                        res.ok()
                    else:
                        res.fail(finding('R15.9', f, x, f'{stmt_text(t)} = {stmt_text(val)[:30]}',
                                         f'`{stmt_text(x)[:60]}` makes a container that the '
                                         f'caller still references the storage of the '
                                         f'map/array: a later write of the caller changes a '
                                         f'value that must be immutable'))
    counts['storage_assignments'] = n
    if n < 5:
        raise AnalysisError(f'only {n} assignments to map/array storage located (5 confirmed)')
    return res


def run(ctx) -> dict:
    counts: dict[str, int] = {}
    results = [r15_1(ctx, counts), r15_2(ctx, counts)]
    # lookups over several maps/arrays must re-evaluate their key specifier for each of them
    from .oneshot import one_shot_rule
    r3 = one_shot_rule(ctx, 'R15.3', lambda f: f.module.name.startswith('elementpath.') and not
                       f.module.name.startswith(('elementpath.regex', 'elementpath.datatypes')),
                       counts)
    if len(r3.instances) < 3:
        raise AnalysisError(f'R15.3: only {len(r3.instances)} functions with one-shot bindings')
    results.append(r3)
    results.append(r15_4(ctx, counts))
    results.append(r15_6(ctx, counts))
    results.append(r15_7(ctx, counts))
    results.append(r15_8(ctx, counts))
    results.append(r15_9(ctx, counts))
    return {
        'results': results, 'counts': counts,
        'explanation':
            'Decided statically: (1) no function of the package mutates storage owned by a map '
            'or array operand — forward may-taint from the storage-exposing accessors of '
            'XPathArray/XPathMap (derived from their return statements) to mutating sinks, over '
            'the CFG of every function; (2) universal-check loops (deep_equal and siblings) do '
            'not return a non-False value from inside the loop.',
        'not_decided':
            'The finite-map and list laws themselves (put/get, size arithmetic, same-key '
            'semantics, FOAY0001 bounds): statements over values.',
        'assumptions': ['a call .items(x)/.values(x)/.keys(x) with an argument is an '
                        'XPathArray/XPathMap accessor (dict views take no argument)',
                        'list(), slicing, sorted() and comprehensions produce fresh containers'],
    }
